#!/usr/bin/env python3
"""seed_prompt.py <seed id e.g. C11r2> [avoid text]: create the scratch worktree /tmp/wt-<sid>, the output directory
/tmp/seeded-out/<sid>, and print the prompt for a fresh sub-agent (property text only; nothing from /verif)."""
import json, os, subprocess, sys
sid = sys.argv[1]
pid = sid[:3]
avoid = sys.argv[2] if len(sys.argv) > 2 else ""
prop = None
for l in open('/verif/properties.jsonl'):
    d = json.loads(l)
    if d['id'] == pid:
        prop = d
wt = f'/tmp/wt-{sid}'
out = f'/tmp/seeded-out/{sid}'
os.makedirs(out, exist_ok=True)
if not os.path.isdir(wt):
    subprocess.check_call(['git', '-C', '/repo', 'worktree', 'add', '--detach', wt, 'HEAD'], stdout=subprocess.DEVNULL, stderr=subprocess.DEVNULL)
text = {k: prop[k] for k in ('id', 'title', 'statement', 'quantifier', 'why_tests_cant', 'anchors')}
print(f"""You are helping to evaluate a test suite's blind spots. You have your own scratch git worktree of the Rust project
sentinel-rust (a port of Alibaba Sentinel: flow control, circuit breaking, hotspot limiting, system protection) at
{wt} . Work ONLY inside {wt} and {out} . Never touch /repo or /verif, and do not read anything under /verif.
There is no network; build with `cd {wt} && CARGO_TARGET_DIR={wt}/target cargo ... --offline`.

Here is a semantic property the project is supposed to satisfy:

{json.dumps(text, indent=1)}

YOUR TASK: make ONE small, realistic change to the library source (the kind of slip a maintainer could make in a refactoring or
an "optimisation": an off-by-one, a wrong operator, a dropped or reordered statement, a stale value, a missing case, two sites
that each look fine alone) that BREAKS this property, while

 1. the workspace still compiles, and
 2. the existing test suite still passes unedited:  cd {wt} && CARGO_TARGET_DIR={wt}/target cargo test --workspace --no-fail-fast --offline   (103 tests), and
 3. the breakage needs something SPECIFIC to manifest - a multi-step sequence of operations, an unusual but legitimate input
    inside the property's quantifier, an exact boundary value, a particular combination of rules or a particular interleaving -
    NOT something any ordinary first use would expose at once. Prefer subtle over blatant. The violating behaviour must be a real
    violation of the property as stated (inside its quantifier), not of something stricter.
{('    Do NOT use any of these ideas (already taken): ' + avoid) if avoid else ''}

Do not change tests, do not change public signatures, do not add dependencies. Change only files under sentinel-core/src
(or middleware/tower/src if the property is about the Tower middleware). Do not touch code guarded by cfg(sentinel_verif) or
cfg(sentinel_verif_sched), and do not touch sentinel-core/verif_std.

DEMONSTRATION: write a small program as the example file {wt}/sentinel-core/examples/seeded_demo.rs that exits 0 (prints OK)
when the property holds on the scenario and panics / exits non-zero when it is violated. It must FAIL with your change and
PASS without it. It is run as
    cd {wt} && CARGO_TARGET_DIR={wt}/target RUSTFLAGS="<flags>" cargo run --offline -q -p sentinel-core [--features <f>] --example seeded_demo
The library has a virtual clock for deterministic demos when built with RUSTFLAGS="--cfg sentinel_verif":
`sentinel_core::utils::verif_clock` (read sentinel-core/src/utils/verif_clock.rs for set/advance functions; with it the library's
clock reads and sleeps use the virtual time). Use it if your scenario depends on time; otherwise build without flags. If the
scenario needs threads in a particular interleaving, make the demonstration deterministic enough to fail reliably (barriers,
many iterations) and say so. (For a Tower-middleware property put the demo where it can be built, e.g. as
{wt}/middleware/tower/examples/seeded_demo.rs, and say how to run it.)

WHEN DONE, leave the change APPLIED in the worktree and write into {out}/ :
  - patch.diff      : `git -C {wt} diff -- sentinel-core/src middleware` (ONLY the library change, not the demo)
  - seeded_demo.rs  : a copy of the demonstration
  - NOTES.md        : what the change is, why it breaks the property, exactly what is needed for it to manifest, the exact commands
                      (RUSTFLAGS / features) to run the demo, and the observed results: tests with the change (pass count), demo with
                      the change (fails), demo without the change (passes).
Verify all three yourself before finishing. Your final message should be a 5-line summary: file(s) changed, one-line description,
what it needs to manifest, demo command, results.""")
