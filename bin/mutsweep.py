#!/usr/bin/env python3
"""mutsweep: systematic mutation sweep of /repo against the quick checks (sensitivity measurement, not a check).

  mutsweep.py list  [--filter REGEX]                  print the mutants (id, file, line, operator)
  mutsweep.py run   --lanes N [--filter REGEX] [--sample K] [--out FILE] [--sched]
  mutsweep.py show  ID                                print the diff of one mutant

Each lane owns a private copy of /repo (HEAD's working tree, no build output) and of /verif/harness under
/tmp/ms/lane<k>/ whose path dependencies point at that copy; a mutant is applied to the copy, the harness is
rebuilt there, and the quick checks of the properties the mutated file belongs to are run with
VERIF_EVIDENCE_DIR pointing into the lane (so /verif/evidence is never touched). /repo itself is never modified.
Results: one JSON line per mutant in the out file: {id, file, line, op, before, after, props: {Cxx: verdict}}.
Verdicts: caught | survived | inconclusive | buildfail. Everything under /tmp/ms is removed at the end.
"""
import argparse, hashlib, json, os, re, shutil, subprocess, sys, threading, queue, time

REPO = "/repo"
SRC_DIRS = ["sentinel-core/src", "middleware/tower/src"]
SKIP_FILES = re.compile(r"(verif_clock|verif_std|exporter|logging|/macros/|datasource/adapters|/ds_|utils/mod|helpers)")

# file (regex on the path relative to /repo) -> properties whose quick check is run for a mutant in it
FILE_PROPS = [
    (r"core/stat/", ["C01", "C02", "C04", "C09", "C17"]),
    (r"core/base/stat", ["C01", "C02", "C04"]),
    (r"core/base/(slot_chain|entry|context|result|block_error|rule)", ["C13", "C04", "C03", "C01", "C05"]),
    (r"core/base/metric_item", ["C18", "C19"]),
    (r"core/base/", ["C13", "C04"]),
    (r"core/flow/traffic_shaping/(throttling)", ["C07", "C11", "C04"]),
    (r"core/flow/traffic_shaping/(warm_up|warmup)", ["C08", "C11"]),
    (r"core/flow/traffic_shaping/adaptive", ["C12"]),
    (r"core/flow/traffic_shaping/", ["C01", "C07", "C08", "C11"]),
    (r"core/flow/rule_manager", ["C10", "C11", "C12", "C01"]),
    (r"core/flow/rule", ["C10", "C12", "C18", "C01"]),
    (r"core/flow/", ["C01", "C07", "C04", "C12"]),
    (r"core/circuitbreaker/rule_manager", ["C10", "C11", "C12", "C03"]),
    (r"core/circuitbreaker/rule", ["C10", "C12", "C18", "C03"]),
    (r"core/circuitbreaker/", ["C03", "C11", "C12"]),
    (r"core/hotspot/rule_manager", ["C10", "C11", "C12", "C05"]),
    (r"core/hotspot/rule", ["C10", "C12", "C18", "C05", "C06"]),
    (r"core/hotspot/traffic_shaping/throttling", ["C07", "C11"]),
    (r"core/hotspot/", ["C05", "C06", "C07", "C11", "C12"]),
    (r"core/isolation/rule_manager", ["C10", "C12", "C05"]),
    (r"core/isolation/", ["C05", "C10", "C12", "C18"]),
    (r"core/system/rule_manager", ["C10", "C12", "C09"]),
    (r"core/system/", ["C09", "C10", "C12", "C18"]),
    (r"core/system_metric", ["C09"]),
    (r"core/config/", ["C17"]),
    (r"core/log/metric/", ["C19"]),
    (r"datasource/", ["C18"]),
    (r"api/", ["C04", "C13", "C03", "C12", "C05"]),
    (r"utils/time", ["C02", "C07", "C19"]),
    (r"middleware/tower", ["C20"]),
]
SCHED_PROPS = [
    (r"core/stat/", ["C14"]),
    (r"core/circuitbreaker/breaker", ["C16"]),
    (r"rule_manager", ["C15"]),
    (r"core/base/(entry|slot_chain)", ["C14"]),
]


def props_for(path, table):
    for rx, ps in table:
        if re.search(rx, path):
            return ps
    return []


OPS = [
    ("ge2gt", re.compile(r" >= "), " > "),
    ("gt2ge", re.compile(r" > "), " >= "),
    ("le2lt", re.compile(r" <= "), " < "),
    ("lt2le", re.compile(r" < "), " <= "),
    ("eq2ne", re.compile(r" == "), " != "),
    ("ne2eq", re.compile(r" != "), " == "),
    ("and2or", re.compile(r" && "), " || "),
    ("or2and", re.compile(r" \|\| "), " && "),
    ("add2sub", re.compile(r" \+ "), " - "),
    ("sub2add", re.compile(r" - "), " + "),
    ("mul2div", re.compile(r" \* "), " / "),
    ("div2mul", re.compile(r" / "), " * "),
    ("pluseq", re.compile(r" \+= "), " -= "),
    ("minuseq", re.compile(r" -= "), " += "),
    ("true2false", re.compile(r"\btrue\b"), "false"),
    ("false2true", re.compile(r"\bfalse\b"), "true"),
    ("dropnot", re.compile(r"(?<=[\s(])!(?=[a-zA-Z_(])"), ""),
    ("fetchadd", re.compile(r"fetch_add"), "fetch_sub"),
    ("fetchsub", re.compile(r"fetch_sub"), "fetch_add"),
    ("min2max", re.compile(r"\.min\("), ".max("),
    ("max2min", re.compile(r"\.max\("), ".min("),
]
STMT = re.compile(r"^\s*(self\.|[a-z_][a-zA-Z0-9_]*(\.|::)|\*)[^=]*\(.*\)\??;\s*$")
ASSIGN = re.compile(r"^\s*(self\.[a-z_.]+|\*?[a-z_][a-z_0-9.]*) (=|\+=|-=) [^=].*;\s*$")


def gen_mutants(filter_rx=None):
    out = []
    for d in SRC_DIRS:
        for root, _, files in os.walk(os.path.join(REPO, d)):
            for f in sorted(files):
                if not f.endswith(".rs"):
                    continue
                path = os.path.join(root, f)
                rel = os.path.relpath(path, REPO)
                if SKIP_FILES.search(rel):
                    continue
                if not props_for(rel, FILE_PROPS):
                    continue
                if filter_rx and not re.search(filter_rx, rel):
                    continue
                lines = open(path).read().split("\n")
                in_test = False
                for i, line in enumerate(lines):
                    s = line.strip()
                    if s.startswith("#[cfg(test)]"):
                        in_test = True  # test modules are at the end of every file in this crate
                    if in_test:
                        continue
                    if s.startswith("//") or s.startswith("#[") or s.startswith("use ") or s.startswith("pub use "):
                        continue
                    if "cfg(sentinel_verif" in s or "verif_" in s:
                        continue
                    if re.search(r"\b(fn|impl|struct|enum|trait|where|type)\b", s) and "{" in s and "if " not in s:
                        continue
                    if re.match(r"(logging::|log::|debug!|info!|warn!|error!|println!|eprintln!)", s):
                        continue
                    code = line.split("//")[0]
                    for name, rx, rep in OPS:
                        for m in rx.finditer(code):
                            # generics / arrows / lifetimes heuristics
                            if name in ("gt2ge", "lt2le") and re.search(r"(->|=>|<[A-Z&']|::<)", code[max(0, m.start() - 2):m.end() + 2]):
                                continue
                            new = code[:m.start()] + rep + code[m.end():] + line[len(code):]
                            out.append((rel, i + 1, name + "@" + str(m.start()), line, new))
                    if STMT.match(code) and not s.startswith("return") and "lock()" not in s and "unwrap();" != s:
                        out.append((rel, i + 1, "delstmt", line, re.match(r"^\s*", line).group(0) + "// deleted"))
                    elif ASSIGN.match(code) and not s.startswith("let "):
                        out.append((rel, i + 1, "delassign", line, re.match(r"^\s*", line).group(0) + "// deleted"))
    res = []
    for rel, ln, op, before, after in out:
        mid = hashlib.sha1(f"{rel}:{ln}:{op}:{before}".encode()).hexdigest()[:10]
        res.append(dict(id=mid, file=rel, line=ln, op=op, before=before.strip(), after=after.strip(), _after_full=after))
    return res


def sh(cmd, **kw):
    return subprocess.run(cmd, shell=True, stdout=subprocess.PIPE, stderr=subprocess.STDOUT, text=True, **kw)


def setup_lane(k, sched):
    lane = f"/tmp/ms/lane{k}"
    shutil.rmtree(lane, ignore_errors=True)
    os.makedirs(lane)
    sh(f"rsync -a --exclude target --exclude .git {REPO}/ {lane}/repo/")
    sh(f"rsync -a --exclude target /verif/harness/ {lane}/harness/")
    for f in ["Cargo.toml", ".cargo/config.toml"]:
        p = f"{lane}/harness/{f}"
        t = open(p).read().replace('"/repo/', f'"{lane}/repo/').replace('"/verif/target/seq"', f'"{lane}/target/seq"')
        open(p, "w").write(t)
    os.makedirs(f"{lane}/evidence", exist_ok=True)
    r = sh(f"cd {lane}/harness && CARGO_NET_OFFLINE=true cargo build --release --quiet 2>&1 | tail -3")
    if not os.path.exists(f"{lane}/target/seq/release/svcheck"):
        print("lane setup failed", r.stdout, file=sys.stderr)
        sys.exit(2)
    if sched:
        r = sh(f"cd {lane}/harness && CARGO_NET_OFFLINE=true RUSTFLAGS='--cfg sentinel_verif --cfg sentinel_verif_sched' cargo +nightly build --release --quiet --features sched --target-dir {lane}/target/sched 2>&1 | tail -3")
    return lane


def run_mutant(lane, m, sched):
    path = f"{lane}/repo/{m['file']}"
    orig = open(path).read()
    lines = orig.split("\n")
    if lines[m["line"] - 1].strip() != m["before"]:
        return {"error": "source drift"}
    lines[m["line"] - 1] = m["_after_full"]
    open(path, "w").write("\n".join(lines))
    verdicts = {}
    try:
        plist = props_for(m["file"], SCHED_PROPS) if sched else props_for(m["file"], FILE_PROPS)
        if not plist:
            return {}
        if sched:
            b = sh(f"cd {lane}/harness && CARGO_NET_OFFLINE=true RUSTFLAGS='--cfg sentinel_verif --cfg sentinel_verif_sched' cargo +nightly build --release --quiet --features sched --target-dir {lane}/target/sched 2>&1 | grep -E '^error' | head -3")
            binp = f"{lane}/target/sched/release/svcheck"
        else:
            b = sh(f"cd {lane}/harness && CARGO_NET_OFFLINE=true cargo build --release --quiet 2>&1 | grep -E '^error' | head -3")
            binp = f"{lane}/target/seq/release/svcheck"
        if b.stdout.strip():
            return {p: "buildfail" for p in plist}
        for p in plist:
            env = dict(os.environ, VERIF_EVIDENCE_DIR=f"{lane}/evidence", VERIF_SHARDS=os.environ.get("MS_SHARDS", "8"))
            try:
                r = subprocess.run([binp, "check", p, "quick"], stdout=subprocess.PIPE, stderr=subprocess.STDOUT, text=True, env=env, timeout=600)
                if r.returncode == 0:
                    verdicts[p] = "survived"
                elif r.returncode == 1 and "VIOLATION" in r.stdout:
                    cl = re.search(r"clause[=:]\s*\"?([A-Za-z0-9_|>=<.-]+)", r.stdout)
                    verdicts[p] = "caught" + (":" + cl.group(1) if cl else "")
                    break  # one catching property is enough
                else:
                    verdicts[p] = f"inconclusive(rc={r.returncode})"
            except subprocess.TimeoutExpired:
                verdicts[p] = "inconclusive(timeout)"
                sh("pkill -f %s/target" % lane)
    finally:
        open(path, "w").write(orig)
    return verdicts


def main():
    ap = argparse.ArgumentParser()
    ap.add_argument("cmd", choices=["list", "run", "show"])
    ap.add_argument("id", nargs="?")
    ap.add_argument("--filter")
    ap.add_argument("--lanes", type=int, default=4)
    ap.add_argument("--sample", type=int, default=0)
    ap.add_argument("--out", default="/tmp/ms/results.jsonl")
    ap.add_argument("--sched", action="store_true")
    ap.add_argument("--skip-done", default=None, help="results file whose ids are skipped")
    a = ap.parse_args()
    ms = gen_mutants(a.filter)
    if a.cmd == "list":
        for m in ms:
            print(m["id"], m["file"], m["line"], m["op"], "|", m["before"][:90])
        print(len(ms), "mutants", file=sys.stderr)
        return
    if a.cmd == "show":
        for m in ms:
            if m["id"] == a.id:
                print(f"{m['file']}:{m['line']} [{m['op']}]\n- {m['before']}\n+ {m['after']}")
        return
    if a.sched:
        ms = [m for m in ms if props_for(m["file"], SCHED_PROPS)]
    done = set()
    if a.skip_done and os.path.exists(a.skip_done):
        for l in open(a.skip_done):
            try:
                done.add(json.loads(l)["id"])
            except Exception:
                pass
    ms = [m for m in ms if m["id"] not in done]
    if a.sample:
        # deterministic subsample: order by id hash
        ms = sorted(ms, key=lambda m: m["id"])[: a.sample]
    print(len(ms), "mutants to run", file=sys.stderr)
    os.makedirs("/tmp/ms", exist_ok=True)
    q = queue.Queue()
    for m in ms:
        q.put(m)
    lock = threading.Lock()
    outf = open(a.out, "a")

    def worker(k):
        lane = setup_lane(k, a.sched)
        while True:
            try:
                m = q.get_nowait()
            except queue.Empty:
                break
            t0 = time.time()
            v = run_mutant(lane, m, a.sched)
            rec = {x: m[x] for x in ("id", "file", "line", "op", "before", "after")}
            rec["props"] = v
            rec["secs"] = round(time.time() - t0, 1)
            with lock:
                outf.write(json.dumps(rec) + "\n")
                outf.flush()
        shutil.rmtree(lane, ignore_errors=True)

    ts = [threading.Thread(target=worker, args=(k,)) for k in range(a.lanes)]
    for t in ts:
        t.start()
    for t in ts:
        t.join()


if __name__ == "__main__":
    main()
