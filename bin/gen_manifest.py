#!/usr/bin/env python3
"""Generate /verif/MANIFEST.json from the table below (keeps it valid at all times)."""
import json, subprocess

HOOK_COMMITS = subprocess.run(
    ["git", "-C", "/repo", "log", "--format=%H %s", "08d207c..HEAD"],
    capture_output=True, text=True).stdout.strip().splitlines()
hook_commits = [l.split()[0] for l in HOOK_COMMITS if " verif hook" in l]

# id -> (technique, level text, level note, design_ref)
CHECKS = {
 "C01": ("proptest byte-decoded histories vs definitional window oracle (both directions), virtual clock",
         "Exploration: hundreds of thousands of generated rule-set x arrival histories per run, each request judged against an independent reference (sum of admitted tokens in the rule's bucket-aligned window, computed from the log by definition). Arrival instants are drawn from a menu that makes exact bucket boundaries, interval+-1 and full-ring expiry common, which is where unit tests cannot reach.",
         "Trusted: the virtual-clock hook, the documented mapping stat_interval_ms -> window geometry under the default configuration, sequential requests.",
         "5/C01"),
}
ALL = ["C%02d" % i for i in range(1, 21)]
NOT_YET = "check not built yet in this round (planned, see DESIGN.md section 5)"

checks = []
for pid in ALL:
    if pid not in CHECKS:
        continue
    tech, text, note, ref = CHECKS[pid]
    checks.append({
        "property_id": pid,
        "quick_cmd": f"bin/check {pid} quick",
        "thorough_cmd": f"bin/check {pid} thorough",
        "evidence_file": f"/verif/evidence/{pid}.json",
        "replay_cmd_template": "/verif/target/seq/release/svcheck replay {path}",
        "engine": "svcheck",
        "level_claimed": {"category": "exploration", "text": text, "design_ref": "DESIGN.md " + ref},
        "level_note": note,
        "technique": tech,
    })
manifest = {
    "version": 1,
    "setup_cmd": "bin/setup",
    "hooks": {
        "guard": "sentinel_verif",
        "enable": "RUSTFLAGS='--cfg sentinel_verif' (set in /verif/harness/.cargo/config.toml); the schedule-controlled build adds --cfg sentinel_verif_sched on cargo +nightly",
        "baseline_off_cmd": "cd /repo && cargo test --workspace --no-fail-fast --offline",
        "source_commits": hook_commits,
        "add_only": True,
    },
    "engines": [{
        "name": "svcheck",
        "path": "/verif/harness",
        "serves_properties": sorted(CHECKS.keys()),
        "kind_free_text": "Rust binary: proptest-driven byte-decoded cases, independent reference models, multi-process shards, shrinking, replay files",
    }],
    "checks": checks,
    "not_applicable": [{"property_id": p, "reason": NOT_YET} for p in ALL if p not in CHECKS],
    "notes": "See DESIGN.md. Exit codes: 0 held, 1 VIOLATION, 2 inconclusive (build failure, watchdog, generator health).",
}
json.dump(manifest, open("/verif/MANIFEST.json", "w"), indent=1)
print("MANIFEST.json written:", len(checks), "checks")
