#!/usr/bin/env python3
"""Generate /verif/MANIFEST.json from the table below (keeps it valid at all times)."""
import json, subprocess

HOOK_COMMITS = subprocess.run(
    ["git", "-C", "/repo", "log", "--format=%H %s", "08d207c..HEAD"],
    capture_output=True, text=True).stdout.strip().splitlines()
hook_commits = [l.split()[0] for l in HOOK_COMMITS if " verif hook" in l]

# id -> (technique, level text, level note, design_ref)
CHECKS = {
 "C01": ("proptest byte-decoded histories vs definitional window oracle (both directions), virtual clock",
         "Exploration: hundreds of thousands of generated rule-set x arrival histories per run, each request judged against an independent reference (sum of admitted tokens in the rule's bucket-aligned window, computed from the log by definition). Arrival instants are drawn from a menu that makes exact bucket boundaries, interval+-1 and full-ring expiry common, which is where unit tests cannot reach.",
         "Trusted: the virtual-clock hook, the documented mapping stat_interval_ms -> window geometry under the default configuration, sequential requests.",
         "5/C01"),
 "C02": ("proptest byte-decoded ring geometries + event histories vs definitional event-list model; must-refuse/must-accept window construction",
         "Exploration: generated (ring geometry x read windows x write/read history) triples; every read of sum/qps/qps_previous/avg_rt/min_rt and raw ring counts for all five event kinds is compared with a model that computes the window from the event list by definition; unservable windows must be refused, tiling windows accepted.",
         "Trusted: hook re-exports of the crate-private window types, virtual clock for *_now readers; ambiguous windows (neither must-refuse nor canonical) may go either way but must count exactly if accepted.",
         "5/C02"),
 "C04": ("proptest build/exit histories over several resources vs in-flight + event-list model compared after every step; one-process sweep over 10 300 distinct resources The last resource is sometimes named by the empty string or by a name with unicode / separator / line break, and a sweep builds and exits one entry on each of 10 300 distinct resources in one process (past the registry's warning threshold).",
         "Exploration: generated interleavings of build/exit on 2-3 resources (inbound/outbound, batch 1..5, optional blocking rule of each family); after every step every resource node and the global inbound node are compared with an independent accounting model (in-flight, pass/block/complete/rt sums in the 10 s and default windows).",
         "Trusted: virtual clock; default window geometry; >= 20 s virtual gap between cases isolates the shared inbound node.",
         "5/C04"),
 "C05": ("proptest build/exit interleavings vs in-flight model; BlockError observed through a recording StatSlot in a copy of the global chain; a third of the cases through the library's global slot chain A third of the cases run through the library's own global slot chain (error text judged), so the chain's assembly is covered.",
         "Exploration: generated isolation rule sets and hotspot concurrency rules (indices, keys, overrides, capacities) with build/exit interleavings; admit/reject decided both ways against an in-flight model, block type and triggered rule checked in the Err text and in the BlockError a custom StatSlot receives.",
         "Trusted: thresholds >= 1 as quantified; for hotspot batch n>1 both readings (entries vs +n) accepted between the two bounds.",
         "5/C05"),
 "C03": ("proptest event histories (enter / complete ok|error|slow / advance) vs executable Closed/Open/Half-Open reference machine, listener log compared after every event",
         "Exploration: generated rule parameters on the decision boundary and event histories; after every event the build() result, every breaker's current_state() and the complete listener log are compared with an independent state-machine model (window sums from an event list by definition), including probes rejected by another rule and two breakers on one resource.",
         "Trusted: virtual clock; breaker order on a resource taken as observed; a blocked probe returns to Open without moving the retry time.",
         "5/C03"),
 "C06": ("proptest arrival histories; bound + state-set lazy reference bucket + two metamorphic re-runs (delete other values, replace override by plain rule)",
         "Exploration: generated rule/override/arrival histories with gaps exactly at d-1, d, d+1 ms; the admitted-token bound of the statement is checked per value, rejections are judged against a reference bucket that is a lower bound of any conforming bucket, and cross-talk / override locality are decided by metamorphic re-execution on fresh resources at the same virtual instants.",
         "Trusted: virtual clock; default capacity so values stay within capacity; a gap of exactly d may or may not refill (both reference states kept).",
         "5/C06"),
 "C07": ("proptest arrival histories vs integer-time pacer model, direct (perform_checking) and end-to-end (build + virtual sleep) drive modes",
         "Exploration: generated rates/intervals/queue limits and arrivals placed just before/at/after the previously scheduled slot; spacing, queue bound, legitimacy of every rejection and the actual delay of the caller (virtual clock before/after build()) are checked for flow throttling and hotspot QPS throttling.",
         "Trusted: virtual clock and virtual sleep; tolerance 2 ns (flow) / 1 ms (hotspot); wait exactly at the maximum accepted either way.",
         "5/C07"),
 "C13": ("proptest chains + exhaustive enumeration of all chains with <= 2 slots per kind; recorded call log judged against the contract; order values up to u32::MAX and arbitrary 32-bit palettes Order values also come from palettes of large and arbitrary 32-bit values (>= 2^31 included).",
         "Exploration with an exhaustive sub-domain: every chain with up to 2 slots of each kind over order values {0,1,7} and every Pass/Blocked/Wait assignment is enumerated; larger chains (up to 4 per kind, ties, arbitrary insertion interleavings) are generated. The call log of recording slots decides ordering, blocked-iff, provenance of the error and the exactly-once notifications.",
         "Trusted: mock check slots only return their result; an early stop right after a blocking slot is accepted.",
         "5/C13"),
 "C09": ("proptest inbound traffic histories; thresholds placed below/at/above the value the harness's own model predicts; injected load/CPU; a third of the cases through the library's global slot chain A third of the cases run through the library's own global slot chain.",
         "Exploration: system rules of all five metric types x both strategies are loaded with thresholds derived from the value the harness's independent model of the inbound node says the next probe will observe (below / equal / above), so every comparison operator and the BBR clause are exercised at the boundary; the block type, the named rule and the carried value are checked through a recording StatSlot; outbound probes must never be blocked.",
         "Trusted: virtual clock; sentinel_verif setters for load/CPU; the shared inbound node is isolated by >= 20 s of virtual time between cases.",
         "5/C09"),
 "C10": ("proptest operation sequences per rule family vs reference rule map; reported, enforced-object and decision comparisons after every operation",
         "Exploration: generated sequences of load-all / load-for-resource / append / clear / get over pools of valid, invalid and equal-but-differently-identified rules for all five managers; after every operation the reported rules, the rules bound to the enforcing controllers/breakers and (flow, isolation) real admission decisions are compared with a reference map; return values asserted only where the statement fixes them.",
         "Trusted: rules given to load_rules_of_resource name that resource; sets compared under rule equality; panics end the shard (dirty).",
         "5/C10"),
 "C12": ("proptest over the cross product of enum-valued and boundary numeric rule fields x loading entry points x entry shapes; catch_unwind + manager health probe; formatting log sink; child-process shrinking",
         "Exploration: every enum variant of every family (incl. Associated with seen / unseen ref_resource, MemoryAdaptive, Custom without generator) combined with boundary and invalid numbers, loaded through every entry point, exercised with entries of every argument shape, reloaded and cleared; a panic anywhere or a manager that no longer answers afterwards is a violation. The build has overflow checks on.",
         "Trusted: virtual clock/sleep; a log sink formatting every record (as any enabled logger would); hangs are reported by the watchdog as inconclusive.",
         "5/C12"),
 "C18": ("proptest rules from the C12 field menus x document variants (compact, pretty, reordered, dropped field, wrong type, truncation, non-array); round-trip, default and differential-enforcement oracles; metric item round trip",
         "Exploration: every family's rules with boundary numbers and hostile names/keys are serialised and parsed back through the datasource parser; equality is checked by PartialEq and field by field, dropped fields must equal Default, malformed documents must be Err (never a panic), and the parsed rule must make the same decisions as the original on a short entry script; metric lines are round-tripped with arbitrary counters.",
         "Trusted: hook exposing the parser and MetricItem fields; truncation judged on the compact form.",
         "5/C18"),
 "C20": ("proptest request/poll schedules over a scripted inner tower::Service with an isolation rule; InFlightModel; deterministic hand-rolled executor; layer-built / cloned service, two resources, flow rule, clock advances The service is built by new or by the layer (optionally cloned), requests address one of two resources, a flow rule may cap admissions, the clock may advance (incl. beyond the 60 s statistic maximum) between operations; error and fallback identity and pass / completion totals are checked.",
         "Exploration (fault sequences): generated sequences of calls whose inner outcome is ready Ok/Err or pending-then-Ok/Err, polled in a generated order with several requests in flight; admitted iff Sentinel admits, inner call count, rejection output (fallback or Err) and the return of the in-flight count after Ok and after Err are checked after every step.",
         "Trusted: tower crate only (tonic not buildable offline); dropped futures are reported, not judged.",
         "5/C20"),
 "C08": ("proptest demand profiles on wall-second-aligned grids; trajectory invariants over admissions per second (no re-implementation of the token formula)",
         "Exploration: generated (q, cold factor, period, grid) and multi-phase demand profiles (saturating, mid, below q/c, idle with gaps around 2p); per-second admission counts must satisfy the statement's invariants: never above q per window, never below about q/c when saturated, monotone ramp reaching q within 2p+2 s, cold again after >= 2p idle seconds, no rejection below q/c.",
         "Trusted: virtual clock; wall-second alignment; one-admission slack for integer truncation (q >= 10c as quantified).",
         "5/C08"),
 "C11": ("proptest differential / metamorphic: same script with and without an inserted reload on fresh resources at the same virtual instants; Arc::ptr_eq of controllers/breakers; threshold->0 / ->1e9 probes; replaced-rule, there-and-back and one-field-change probes with carry-over-independent bounds / fresh-resource reference Rule parameters come from menus; the reload may replace the first rule by a different one (probe burst with bounds that hold whatever is carried over), go there and back (threshold out of reach, then the original rules again, independently chosen entry points), or change exactly one parameter after 30 s idle (probe script compared with a fresh resource under the changed rule at the same clock phase).",
         "Exploration: eight scenarios (flow global/private window, throttling, warm-up, hotspot QPS reject/throttling/concurrency, circuit breaker) x reload position x reload API x treatment of unrelated resources x id refresh/reordering; the observation sequence (admission, block type, time slept, breaker states) must equal the reload-free run, enforcing objects must be the same Arc, and a changed threshold must act on the very next entry.",
         "Trusted: virtual clock; both runs start at the same bucket phase; a second rule only where evaluation order of a resource's rules cannot matter.",
         "5/C11"),
 "C17": ("long-lived thread across initialisations; exhaustive enumeration of the 1715-point configuration grid + proptest (entity / YAML, bucket phase); acceptance predicates; window behaviour probed on the initialising thread and on a second thread under the virtual clock",
         "Exploration with an exhaustive sub-domain: every grid point is initialised as ConfigEntity (all 1715) and generated points also through a YAML file; acceptance must agree with check() and with the statement's must-refuse / must-accept predicates; an accepted configuration must yield working entries and the configured window geometry (getters, accessor, and visibility of a recorded pass until its bucket leaves interval_ms / interval_ms_total) on the initialising thread and on another thread.",
         "Trusted: several configurations initialised one after another in one process on fresh resources; virtual clock; geometry accessor hook as cross-check.",
         "5/C17"),
 "C19": ("proptest write histories; queries enumerated exhaustively per history; crash-point (fault) enumeration over the journalled byte stream of the writer; journal-based placement oracle; reused searcher asked in ascending / descending / shuffled order; retention oracle; histories long enough for file numbers to pass 9 A reused searcher is asked the whole query list in three orders; retention may only remove the oldest files and must leave min(created, max_file_count); an eighth of the histories roll more than ten times a day.",
         "Fault enumeration: for every generated write history (size roll-overs, date roll-over, retention, gaps) every (begin, end, resource) and (begin, max_lines) query is checked against the surviving items; then every operation boundary, every interior byte of every index entry and sampled/all interior line bytes of the writer's journalled output are materialised as crash prefixes and searched: every item whose line and index entry are complete must be returned in order, at most one bogus (torn) item, never a panic.",
         "Trusted: the writer journal hook is the ground truth for the order of file operations; crash states are prefixes of that stream; one write() per second after the creation second.",
         "5/C19"),
 "C14": ("schedule-controlled execution (own cooperative scheduler over a std::sync shadow): exhaustive enumeration of all schedules with <= k preemptions + proptest-generated scenarios and preemption lists; end-state oracle; stale ring slots (20 s, exactly one lap on the boundary, one lap), response-time totals Slots holding an old bucket (20 s old, exactly one ring lap old on the bucket boundary, one lap old) and small clock advances before exits are generated; totals (pass, complete, response time) are exact whenever no preemption made operations overlap.",
         "Exploration with an exhaustive bounded sub-domain: the harness owns the schedule (every Mutex/RwLock/atomic/Once/yield of sentinel-core is a schedule point), so interleavings are inputs: all schedules with <= 2 (quick) / 3 (thorough) preemptions of the 2-thread fresh-resource scenario are enumerated, and generated scenarios (2-3 threads, 1-2 build/exit pairs, inbound/outbound, existing resource, clock step) run under generated preemption lists. After join the shared node, in-flight count and totals are judged.",
         "Trusted: interleavings at the granularity of std sync operations, sequentially consistent; lazy_static/lru internals atomic; RwLock writer preference not modelled.",
         "5/C14, 2.4"),
 "C15": ("schedule-controlled execution: exhaustive k-bounded enumeration over every ordered pair of manager operations per family + proptest scenarios (2-3 threads, callbacks) ; deadlock / panic / health-probe verdicts; known findings keyed by callback shape; std RwLock writer preference modelled The scheduler models std's writer preference (a new read waits while the lock is held and a writer is parked on it), so recursive reads behind a parked writer are deadlock verdicts.",
         "Exploration with an exhaustive bounded sub-domain: every ordered pair of the ten operations (load, load-for-resource, append, clear, clear-resource, get, get-resource, entry, entry with another family updated) x five families x (empty | preloaded) is run under all schedules with <= 1 (quick) / 2 (thorough) preemptions; generated 2-3 thread scenarios with listeners and custom generators add depth. A state in which every unfinished thread is blocked is a deadlock; panics and an unusable manager afterwards are violations.",
         "Trusted: as C14; liveness decided as the safety property 'no all-blocked state' in bounded scenarios; the two callback shapes recorded as known findings are excluded from exploration by construction and asserted by committed replays.",
         "5/C15, 2.4"),
 "C16": ("schedule-controlled execution: exhaustive k-bounded enumeration of four transition scenarios (incl. a probe rejected by an isolation rule racing with a stale completion) x three strategies + proptest schedules; listener-log path oracle",
         "Exploration with an exhaustive bounded sub-domain: for each transition (several opening completions, several requests after the retry timeout, probe completion vs new request vs stale completion) and each strategy all schedules with <= 2 (quick) / 3 (thorough) preemptions are enumerated and 2-3 thread variants run under generated schedules; the listener log must be a path of the state machine ending in current_state(), with exactly one opener / one probe.",
         "Trusted: as C14; virtual clock fixed during the concurrent phase.",
         "5/C16, 2.4"),
}
ALL = ["C%02d" % i for i in range(1, 21)]
NOT_YET = "check not built yet in this round (planned, see DESIGN.md section 5)"

checks = []
for pid in ALL:
    if pid not in CHECKS:
        continue
    tech, text, note, ref = CHECKS[pid]
    checks.append({
        "property_id": pid,
        "quick_cmd": f"bin/check {pid} quick",
        "thorough_cmd": f"bin/check {pid} thorough",
        "evidence_file": f"/verif/evidence/{pid}.json",
        "replay_cmd_template": ("/verif/target/sched/release/svcheck replay {path}" if pid in ("C14", "C15", "C16") else "/verif/target/seq/release/svcheck replay {path}"),
        "engine": "svcheck",
        "level_claimed": {"category": ("fault_enumeration" if pid == "C19" else "exploration"), "text": text, "design_ref": "DESIGN.md " + ref},
        "level_note": note,
        "technique": tech,
    })
manifest = {
    "version": 1,
    "setup_cmd": "bin/setup",
    "hooks": {
        "guard": "sentinel_verif",
        "enable": "RUSTFLAGS='--cfg sentinel_verif' (set in /verif/harness/.cargo/config.toml); the schedule-controlled build adds --cfg sentinel_verif_sched on cargo +nightly",
        "baseline_off_cmd": "cd /repo && cargo test --workspace --no-fail-fast --offline",
        "source_commits": hook_commits,
        "add_only": True,
    },
    "engines": [{
        "name": "svcheck",
        "path": "/verif/harness",
        "serves_properties": sorted(CHECKS.keys()),
        "kind_free_text": "Rust binary: proptest-driven byte-decoded cases, independent reference models, multi-process shards, shrinking, replay files; a second build (nightly, --features sched) adds a cooperative scheduler that owns every std::sync operation of sentinel-core for C14-C16",
    }],
    "checks": checks,
    "not_applicable": [{"property_id": p, "reason": NOT_YET} for p in ALL if p not in CHECKS],
    "notes": "See DESIGN.md. Exit codes: 0 held, 1 VIOLATION, 2 inconclusive (build failure, watchdog, generator health).",
}
json.dump(manifest, open("/verif/MANIFEST.json", "w"), indent=1)
print("MANIFEST.json written:", len(checks), "checks")
