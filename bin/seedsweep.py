#!/usr/bin/env python3
"""seedsweep.py [--lanes N] [ids...]: run every stored seeded change (/verif/seeded/<id>/patch.diff) against the quick check of
its property in private lane copies of /repo and /verif/harness (as bin/mutsweep.py does; /repo and /verif/evidence are never
touched). Writes /verif/seeded/RESULTS.txt: one line per seed with the verdict and clause of the current checks."""
import json, os, re, shutil, subprocess, sys, threading, queue, glob
sys.path.insert(0, '/verif/bin')
import importlib.util
spec = importlib.util.spec_from_file_location("mutsweep", "/verif/bin/mutsweep.py")
ms = importlib.util.module_from_spec(spec); spec.loader.exec_module(ms)

def sh(cmd, **kw):
    return subprocess.run(cmd, shell=True, stdout=subprocess.PIPE, stderr=subprocess.STDOUT, text=True, **kw)

def run_seed(lane, sid):
    pid = sid[:3]
    sched = pid in ('C14', 'C15', 'C16')
    patch = f'/verif/seeded/{sid}/patch.diff'
    r = sh(f'cd {lane}/repo && patch -p1 --no-backup-if-mismatch < {patch}')
    if r.returncode != 0:
        return 'patch-failed', r.stdout[-300:]
    try:
        if sched:
            b = sh(f"cd {lane}/harness && CARGO_NET_OFFLINE=true RUSTFLAGS='--cfg sentinel_verif --cfg sentinel_verif_sched' cargo +nightly build --release --quiet --features sched --target-dir {lane}/target/sched 2>&1 | grep -E '^error' | head -3")
            binp = f'{lane}/target/sched/release/svcheck'
        else:
            b = sh(f"cd {lane}/harness && CARGO_NET_OFFLINE=true cargo build --release --quiet 2>&1 | grep -E '^error' | head -3")
            binp = f'{lane}/target/seq/release/svcheck'
        if b.stdout.strip():
            return 'buildfail', b.stdout
        env = dict(os.environ, VERIF_EVIDENCE_DIR=f'{lane}/evidence')
        try:
            r = subprocess.run([binp, 'check', pid, 'quick'], stdout=subprocess.PIPE, stderr=subprocess.STDOUT, text=True, env=env, timeout=3000)
        except subprocess.TimeoutExpired:
            return 'timeout', ''
        if r.returncode == 1 and 'VIOLATION' in r.stdout:
            cl = re.search(r'clause:\s*(\S+)', r.stdout)
            return 'VIOLATION', cl.group(1) if cl else ''
        return f'rc={r.returncode}', r.stdout[-200:].replace('\n', ' ')
    finally:
        sh(f'cd {lane}/repo && patch -p1 -R --no-backup-if-mismatch < {patch}')

def main():
    args = sys.argv[1:]
    lanes = 2
    if args and args[0] == '--lanes':
        lanes = int(args[1]); args = args[2:]
    ids = args or sorted(os.path.basename(d) for d in glob.glob('/verif/seeded/C*'))
    q = queue.Queue()
    for i in ids:
        q.put(i)
    res = {}
    lock = threading.Lock()
    os.makedirs('/tmp/ms', exist_ok=True)
    def worker(k):
        lane = ms.setup_lane(100 + k, True)
        while True:
            try:
                sid = q.get_nowait()
            except queue.Empty:
                break
            v, c = run_seed(lane, sid)
            with lock:
                res[sid] = (v, c)
                print(sid, v, c, flush=True)
        shutil.rmtree(lane, ignore_errors=True)
    ts = [threading.Thread(target=worker, args=(k,)) for k in range(lanes)]
    [t.start() for t in ts]; [t.join() for t in ts]
    head = subprocess.run('git -C /verif rev-parse --short HEAD', shell=True, stdout=subprocess.PIPE, text=True).stdout.strip()
    # merge with what an earlier (partial) sweep recorded
    try:
        for l in open('/verif/seeded/RESULTS.txt'):
            if l.startswith('#') or not l.strip():
                continue
            a = l.rstrip('\n').split('\t')
            if a[0] not in res:
                res[a[0]] = (a[1], a[2] if len(a) > 2 else '')
    except FileNotFoundError:
        pass
    with open('/verif/seeded/RESULTS.txt', 'w') as f:
        f.write(f'# quick checks of /verif (last sweep at {head}) against every stored seeded change (bin/seedsweep.py)\n')
        for sid in sorted(res):
            f.write(f'{sid}\t{res[sid][0]}\t{res[sid][1]}\n')
    bad = [s for s in res if res[s][0] != 'VIOLATION']
    print('not reported:', bad)

main()
