#!/usr/bin/env python3
"""store_seed.py <ID> <verdict> <clause> <needs> [note]: copy a verified seeded change from /tmp/seeded-out/<ID> to /verif/seeded/<ID>"""
import json, os, shutil, sys, glob
i, verdict, clause, needs = sys.argv[1:5]
note = sys.argv[5] if len(sys.argv) > 5 else ""
d = f'/verif/seeded/{i}'
os.makedirs(d, exist_ok=True)
for f in ['patch.diff', 'seeded_demo.rs', 'NOTES.md', 'Cargo.toml']:
    if os.path.exists(f'/tmp/seeded-out/{i}/{f}'):
        shutil.copy(f'/tmp/seeded-out/{i}/{f}', d)
meta = {
    "property": i[:3], "seed_id": i, "round": (2 if "r2" in i else 3 if "r3" in i else 1),
    "origin": "fresh sub-agent given only the property text and a scratch worktree of /repo (nothing from /verif)",
    "needs_to_manifest": needs,
    "verified_here": {
        "existing_tests_with_change": "103 passed, 0 failed (cargo test --workspace --offline in the scratch worktree)",
        "demonstration_with_change": "exit 101",
        "demonstration_without_change": "exit 0",
        "command": f"bin/verify_seed {i} ... (tests with the change; the demonstration with and without the patch)",
    },
    "check_result": {"command": f"bin/try_seed {i}  (git -C /repo apply patch.diff; bin/check {i[:3]} quick; git -C /repo checkout -- .)", "verdict": verdict, "clause": clause},
}
if note:
    meta["note"] = note
json.dump(meta, open(d + '/meta.json', 'w'), indent=1)
print("stored", d)
