#!/usr/bin/env python3
"""Regenerate /verif/seeded/README.md from the meta.json files."""
import json, glob, os
rows = []
for d in sorted(glob.glob('/verif/seeded/C*')):
    m = json.load(open(d + '/meta.json'))
    rows.append(m)
out = ["# Independently seeded breaking changes", "",
"One fresh sub-agent per property and round, given only the property's text and a scratch worktree of /repo (nothing from /verif),",
"asked for a change that breaks the property while compiling and passing the 103 existing tests, plus a demonstration.",
"Every change kept here was re-verified (`bin/verify_seed`): tests pass with it, the demonstration fails with it and",
"passes without it. `bin/try_seed <seed id>` applies `patch.diff` to /repo, runs the quick check and undoes it.",
"Each directory: `patch.diff`, the demonstration (`seeded_demo.rs`), the agent's `NOTES.md`, `meta.json`.", "",
"| seed | round | needs to manifest | quick check | clause | remark |", "|---|---|---|---|---|---|"]
missed = 0
for m in rows:
    note = m.get('note', '')
    was_missed = 'MISSED' in note or 'missed' in note
    missed += was_missed
    out.append("| %s | %s | %s | %s | %s | %s |" % (m.get('seed_id', m['property']), m.get('round', 1), m.get('needs_to_manifest', '').replace('|', '/'),
        ('**missed at first**, now ' if was_missed else '') + m['check_result']['verdict'], m['check_result'].get('clause', '').replace('|', '/'), note.replace('|', '/')))
out += ["", "%d changes, %d of them missed by the check as it stood when the change arrived (each led to a stronger check and is reported now)." % (len(rows), missed), ""]
open('/verif/seeded/README.md', 'w').write("\n".join(out))
print(len(rows), "rows,", missed, "missed at first")
