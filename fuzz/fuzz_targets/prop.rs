//! Coverage-guided driver for any svcheck property: the same byte decoder and the same oracle as the
//! proptest tier (`SVCHECK_PROP` selects the property). A failed oracle clause panics, so libFuzzer
//! saves the input; known findings are tolerated (the harness handles them in its own tier).
#![no_main]
use libfuzzer_sys::fuzz_target;
use std::sync::OnceLock;
use svcheck::engine::{self, Property, RunCfg, Tier, Verdict};

struct P(Box<dyn Property>);
// properties are stateless unit structs; libFuzzer drives this target from one thread
unsafe impl Send for P {}
unsafe impl Sync for P {}
static PROP: OnceLock<P> = OnceLock::new();

fuzz_target!(|data: &[u8]| {
    let prop = PROP.get_or_init(|| {
        let id = std::env::var("SVCHECK_PROP").expect("SVCHECK_PROP");
        let p = engine::find_property(&id).expect("unknown property");
        svcheck::util::set_shard_tag(77);
        svcheck::util::clock::init();
        p.setup();
        P(p)
    });
    let cfg = RunCfg { tier: Tier::Thorough, want_decoded: false, strict: false };
    if let Verdict::Fail(f) = prop.0.run(data, &cfg) {
        panic!("ORACLE-FAIL {} | {} | {}", f.clause, f.key, f.detail);
    }
});
