//! bytes -> a metric log file + its index file with arbitrary content; both searches must return
//! (Ok or Err), never panic or hang.
#![no_main]
use libfuzzer_sys::fuzz_target;
use sentinel_core::log::metric::{DefaultMetricSearcher, MetricSearcher};

fuzz_target!(|data: &[u8]| {
    if data.len() < 4 {
        return;
    }
    let split = (data[0] as usize * 256 + data[1] as usize) % data.len();
    let begin = 1_709_632_800_000u64 + (data[2] as u64) * 500;
    let max_lines = data[3] as usize % 8 + 1;
    let (idx, log) = data[4..].split_at(split.min(data.len() - 4));
    let dir = format!("/verif/out/fuzz-search-{}/", std::process::id());
    let _ = std::fs::create_dir_all(&dir);
    let name = "fz-metrics.log.2024-03-05";
    std::fs::write(format!("{}{}", dir, name), log).unwrap();
    std::fs::write(format!("{}{}.idx", dir, name), idx).unwrap();
    let s = DefaultMetricSearcher::new(dir.clone(), "fz-metrics.log".to_string()).unwrap();
    let _ = s.find_by_time_and_resource(begin, begin + 5_000, "");
    let _ = s.find_by_time_and_resource(begin, begin + 5_000, "alpha");
    let _ = s.find_from_time_with_max_lines(begin, max_lines);
});
