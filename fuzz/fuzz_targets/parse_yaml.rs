//! bytes -> YAML ConfigEntity + check(): never a panic.
#![no_main]
use libfuzzer_sys::fuzz_target;
use sentinel_core::config::ConfigEntity;

fuzz_target!(|data: &[u8]| {
    if let Ok(s) = std::str::from_utf8(data) {
        if let Ok(e) = serde_yaml::from_str::<ConfigEntity>(s) {
            let _ = e.check();
            let _ = format!("{}", e);
        }
    }
});
