//! bytes -> MetricItem::from_string: never a panic; an accepted line with a representable timestamp
//! re-serialises to a line that parses to the same item.
#![no_main]
use libfuzzer_sys::fuzz_target;
use sentinel_core::base::MetricItem;

fuzz_target!(|data: &[u8]| {
    if let Ok(s) = std::str::from_utf8(data) {
        if let Ok(item) = MetricItem::from_string(s) {
            let f = item.verif_fields();
            if f.timestamp < 253_402_300_799_000 {
                let line = item.to_string();
                let back = MetricItem::from_string(&line).expect("own line must parse");
                let mut want = f.clone();
                want.resource = want.resource.replace('|', "_");
                assert_eq!(back.verif_fields(), want, "line {:?}", line);
            }
        }
    }
});
