//! bytes -> each family's datasource parser: never a panic; an accepted document re-serialises to a
//! document that parses to equal rules (fixed point).
#![no_main]
use libfuzzer_sys::fuzz_target;
use sentinel_core::datasource::rule_json_array_parser;
use sentinel_core::{circuitbreaker as cb, flow, hotspot, isolation, system};

fn one<T>(s: &str)
where
    T: serde::Serialize + serde::de::DeserializeOwned + sentinel_core::base::SentinelRule + PartialEq + std::fmt::Debug,
{
    if let Ok(rules) = rule_json_array_parser::<T>(s) {
        let refs: Vec<&T> = rules.iter().map(|r| &**r).collect();
        let again = serde_json::to_string(&refs).expect("serialise parsed rules");
        let back = rule_json_array_parser::<T>(&again).expect("re-parse own output");
        assert_eq!(back.len(), rules.len());
        for (a, b) in rules.iter().zip(back.iter()) {
            // NaN never equals itself; compare through JSON (NaN serialises as null and would not parse, so it cannot be here)
            assert_eq!(serde_json::to_value(&**a).unwrap(), serde_json::to_value(&**b).unwrap());
            let _ = a.is_valid();
            let _ = format!("{:?}", a);
        }
    }
}

fuzz_target!(|data: &[u8]| {
    if let Ok(s) = std::str::from_utf8(data) {
        one::<flow::Rule>(s);
        one::<hotspot::Rule>(s);
        one::<cb::Rule>(s);
        one::<isolation::Rule>(s);
        one::<system::Rule>(s);
    }
});
