//! Reference models, independent of the implementation under test.
pub mod breaker;
pub mod buckets;
pub mod node;
