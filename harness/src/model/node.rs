//! NodeModel: what a statistics node must report, computed from the harness's own event log.
use super::buckets::window_lo;
use sentinel_core::base::{ConcurrencyStat, MetricEvent, ReadStat};

pub const PASS: usize = 0;
pub const BLOCK: usize = 1;
pub const COMPLETE: usize = 2;
pub const ERROR: usize = 3;
pub const RT: usize = 4;
pub const KINDS: [MetricEvent; 5] = [
    MetricEvent::Pass,
    MetricEvent::Block,
    MetricEvent::Complete,
    MetricEvent::Error,
    MetricEvent::Rt,
];
pub const KIND_NAMES: [&str; 5] = ["Pass", "Block", "Complete", "Error", "Rt"];

#[derive(Default, Debug, Clone)]
pub struct NodeModel {
    /// (time, kind, amount)
    pub events: Vec<(u64, usize, u64)>,
    pub open: i64,
}

impl NodeModel {
    pub fn pass(&mut self, t: u64, batch: u64) {
        self.events.push((t, PASS, batch));
        self.open += 1;
    }
    pub fn block(&mut self, t: u64, batch: u64) {
        self.events.push((t, BLOCK, batch));
    }
    pub fn complete(&mut self, t: u64, batch: u64, rt: u64) {
        self.events.push((t, RT, rt));
        self.events.push((t, COMPLETE, batch));
        self.open -= 1;
    }
    /// bucket length `l`, window `iv`
    pub fn sum(&self, t: u64, kind: usize, l: u64, iv: u64) -> u64 {
        let lo = window_lo(t, l, iv);
        self.events.iter().filter(|e| e.1 == kind && e.0 >= lo && e.0 <= t).map(|e| e.2).sum()
    }
    pub fn min_rt(&self, t: u64, l: u64, iv: u64) -> u64 {
        let lo = window_lo(t, l, iv);
        self.events
            .iter()
            .filter(|e| e.1 == RT && e.0 >= lo && e.0 <= t)
            .map(|e| e.2)
            .min()
            .unwrap_or(60_000)
            .min(60_000)
    }
    /// largest per-bucket Complete count among buckets of the window
    pub fn max_bucket(&self, t: u64, kind: usize, l: u64, iv: u64) -> u64 {
        let lo = window_lo(t, l, iv);
        let mut m: std::collections::BTreeMap<u64, u64> = Default::default();
        for e in self.events.iter().filter(|e| e.1 == kind && e.0 >= lo && e.0 <= t) {
            *m.entry(e.0 / l).or_insert(0) += e.2;
        }
        m.values().cloned().max().unwrap_or(0)
    }
}

fn feq(a: f64, b: f64) -> bool {
    (a - b).abs() <= 1e-9 * a.abs().max(b.abs()).max(1.0)
}

/// Compare a node (default geometry: ring 20 x 500 ms, default metric 1 s) with its model at time t.
/// `long` is a 10 s read stat generated from the node.
pub fn compare_node<N: ReadStat + ConcurrencyStat + ?Sized>(
    what: &str,
    node: &N,
    long: &dyn ReadStat,
    m: &NodeModel,
    t: u64,
) -> Result<(), (String, String)> {
    let conc = node.current_concurrency() as i64;
    if conc != m.open {
        return Err((
            "in-flight-mismatch".into(),
            format!("{}: current_concurrency {} but {} passed entries are open", what, conc, m.open),
        ));
    }
    for k in 0..5 {
        let want = m.sum(t, k, 500, 10_000);
        let got = long.sum(KINDS[k]);
        if got != want {
            return Err((
                format!("ten-second-{}-mismatch", KIND_NAMES[k].to_lowercase()),
                format!("{}: 10 s window sum({}) = {} expected {}", what, KIND_NAMES[k], got, want),
            ));
        }
        let want1 = m.sum(t, k, 500, 1000);
        let got1 = node.sum(KINDS[k]);
        if got1 != want1 || !feq(node.qps(KINDS[k]), want1 as f64) {
            return Err((
                format!("default-window-{}-mismatch", KIND_NAMES[k].to_lowercase()),
                format!("{}: default window sum({}) = {} qps {} expected {}", what, KIND_NAMES[k], got1, node.qps(KINDS[k]), want1),
            ));
        }
    }
    let comp = m.sum(t, COMPLETE, 500, 1000);
    let want_avg = if comp == 0 { 0.0 } else { m.sum(t, RT, 500, 1000) as f64 / comp as f64 };
    if !feq(node.avg_rt(), want_avg) {
        return Err(("avg-rt-mismatch".into(), format!("{}: avg_rt {} expected {}", what, node.avg_rt(), want_avg)));
    }
    let want_min = m.min_rt(t, 500, 1000) as f64;
    if !feq(node.min_rt(), want_min) {
        return Err(("min-rt-mismatch".into(), format!("{}: min_rt {} expected {}", what, node.min_rt(), want_min)));
    }
    Ok(())
}
