//! BreakerModel: the documented Closed / Open / Half-Open machine, stepped with the same events
//! as the implementation. Statistics are an event list; the window is computed by definition.
use serde::Serialize;

#[derive(Debug, Clone, Copy, PartialEq, Serialize)]
pub enum St {
    Closed,
    HalfOpen,
    Open,
}

#[derive(Debug, Clone, Copy, PartialEq, Serialize)]
pub enum Strategy {
    SlowRequestRatio,
    ErrorRatio,
    ErrorCount,
}

#[derive(Debug, Clone, Serialize)]
pub struct Spec {
    pub id: String,
    pub strategy: Strategy,
    pub retry_timeout_ms: u64,
    pub min_request_amount: u64,
    pub stat_interval_ms: u64,
    pub bucket_count: u64,
    pub max_allowed_rt_ms: u64,
    pub threshold: f64,
}

#[derive(Debug, Clone, PartialEq, Serialize)]
pub struct Transition {
    pub rule_id: String,
    pub from: St,
    pub to: St,
}

#[derive(Debug, Clone)]
pub struct Breaker {
    pub spec: Spec,
    pub state: St,
    pub next_retry: u64,
    /// completions since the last statistics reset: (time, counted as target)
    pub events: Vec<(u64, bool)>,
}

impl Breaker {
    pub fn new(spec: Spec) -> Self {
        Breaker { spec, state: St::Closed, next_retry: 0, events: Vec::new() }
    }
    fn bucket_len(&self) -> u64 {
        let n = if self.spec.bucket_count == 0 || self.spec.stat_interval_ms % self.spec.bucket_count != 0 {
            1
        } else {
            self.spec.bucket_count
        };
        self.spec.stat_interval_ms / n
    }
    fn window(&self, now: u64) -> (u64, u64) {
        let l = self.bucket_len();
        let lo = ((now / l) * l + l).saturating_sub(self.spec.stat_interval_ms);
        let mut target = 0;
        let mut total = 0;
        for (t, tg) in &self.events {
            if *t >= lo {
                total += 1;
                if *tg {
                    target += 1;
                }
            }
        }
        (target, total)
    }
    /// a request arrives; returns (admitted by this breaker, it is a probe)
    pub fn try_pass(&mut self, now: u64, log: &mut Vec<Transition>) -> (bool, bool) {
        match self.state {
            St::Closed => (true, false),
            St::HalfOpen => (false, false),
            St::Open => {
                if now >= self.next_retry {
                    self.state = St::HalfOpen;
                    log.push(Transition { rule_id: self.spec.id.clone(), from: St::Open, to: St::HalfOpen });
                    (true, true)
                } else {
                    (false, false)
                }
            }
        }
    }
    /// the entry that carried this breaker's probe ended up blocked
    pub fn probe_blocked(&mut self, log: &mut Vec<Transition>) {
        if self.state == St::HalfOpen {
            self.state = St::Open;
            log.push(Transition { rule_id: self.spec.id.clone(), from: St::HalfOpen, to: St::Open });
        }
    }
    pub fn on_complete(&mut self, now: u64, rt: u64, error: bool, log: &mut Vec<Transition>) {
        let target = match self.spec.strategy {
            Strategy::SlowRequestRatio => rt > self.spec.max_allowed_rt_ms,
            _ => error,
        };
        self.events.push((now, target));
        let (tg, total) = self.window(now);
        match self.state {
            St::HalfOpen => {
                if target {
                    self.state = St::Open;
                    self.next_retry = now + self.spec.retry_timeout_ms;
                    log.push(Transition { rule_id: self.spec.id.clone(), from: St::HalfOpen, to: St::Open });
                } else {
                    self.state = St::Closed;
                    self.events.clear();
                    log.push(Transition { rule_id: self.spec.id.clone(), from: St::HalfOpen, to: St::Closed });
                }
            }
            St::Closed => {
                let met = match self.spec.strategy {
                    Strategy::ErrorCount => tg >= self.spec.threshold as u64,
                    _ => total > 0 && (tg as f64 / total as f64) >= self.spec.threshold,
                };
                if total >= self.spec.min_request_amount && met {
                    self.state = St::Open;
                    self.next_retry = now + self.spec.retry_timeout_ms;
                    log.push(Transition { rule_id: self.spec.id.clone(), from: St::Closed, to: St::Open });
                }
            }
            St::Open => {}
        }
    }
}
