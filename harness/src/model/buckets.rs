//! BucketModel: a plain event list; "what is in the window ending at t" is computed from the
//! definition, never from a ring buffer.

/// Sum of `amount` over events whose time bucket (length `l`) starts inside the bucket-aligned
/// window of `interval` ms ending with the bucket that contains `t`:
/// bucket start in [floor(t/l)*l - interval + l, floor(t/l)*l].
pub fn window_sum(events: &[(u64, u64)], t: u64, l: u64, interval: u64) -> u64 {
    let end = (t / l) * l;
    let lo = (end + l).saturating_sub(interval);
    events
        .iter()
        .filter(|(te, _)| *te >= lo && (*te / l) * l <= end)
        .map(|(_, a)| *a)
        .sum()
}

/// start of the bucket-aligned window (inclusive lower bound on event times)
pub fn window_lo(t: u64, l: u64, interval: u64) -> u64 {
    ((t / l) * l + l).saturating_sub(interval)
}
