//! Hand-written byte decoder in the style of `arbitrary::Unstructured`.
//! Rules: every byte string decodes to a valid case; choices are monotone in the byte value
//! (`byte * n / 256`), running out of bytes yields zeros (the simplest choice), so shrinking the
//! byte vector shrinks the case.

pub struct Bytes<'a> {
    data: &'a [u8],
    pos: usize,
    /// bytes taken from the end (see `tail_u8`)
    tail: usize,
}

impl<'a> Bytes<'a> {
    pub fn new(data: &'a [u8]) -> Self {
        Bytes { data, pos: 0, tail: 0 }
    }
    pub fn u8(&mut self) -> u8 {
        let b = self.data.get(self.pos).copied().unwrap_or(0);
        self.pos += 1;
        b
    }
    pub fn u16(&mut self) -> u16 {
        let hi = self.u8() as u16;
        let lo = self.u8() as u16;
        (hi << 8) | lo
    }
    pub fn u32(&mut self) -> u32 {
        ((self.u16() as u32) << 16) | self.u16() as u32
    }
    /// uniform-ish choice in 0..n (n in 1..=256), monotone in the byte
    pub fn choice(&mut self, n: usize) -> usize {
        debug_assert!(n >= 1 && n <= 256);
        (self.u8() as usize * n) >> 8
    }
    /// choice in 0..n for n up to 65536
    pub fn choice16(&mut self, n: usize) -> usize {
        (self.u16() as usize * n) >> 16
    }
    /// inclusive range, span <= 256
    pub fn range(&mut self, lo: u64, hi: u64) -> u64 {
        debug_assert!(hi >= lo);
        let span = (hi - lo + 1) as usize;
        if span <= 256 {
            lo + self.choice(span) as u64
        } else {
            lo + self.choice16(span.min(65536)) as u64
        }
    }
    pub fn bool(&mut self) -> bool {
        self.u8() >= 128
    }
    /// true with probability about num/256
    pub fn chance(&mut self, num: u8) -> bool {
        (self.u8() as u16) >= 256 - num as u16
    }
    pub fn pick<T: Clone>(&mut self, xs: &[T]) -> T {
        xs[self.choice(xs.len())].clone()
    }
    /// Reads backwards from the END of the input (0 once it would meet the forward cursor). Fields added to a
    /// decoder later are drawn from here, so that the layout of everything decoded from the front - and with it
    /// every committed replay - stays what it was.
    pub fn tail_u8(&mut self) -> u8 {
        let n = self.data.len();
        let b = if self.tail < n && n - 1 - self.tail >= self.pos { self.data[n - 1 - self.tail] } else { 0 };
        self.tail += 1;
        b
    }
    pub fn tail_choice(&mut self, n: usize) -> usize {
        (self.tail_u8() as usize * n) >> 8
    }
    pub fn exhausted(&self) -> bool {
        self.pos >= self.data.len()
    }
    pub fn consumed(&self) -> usize {
        self.pos.min(self.data.len())
    }
    pub fn remaining(&self) -> usize {
        self.data.len().saturating_sub(self.pos)
    }
}
