//! Driver: replays, shard processes, merge, evidence, VIOLATION / KNOWN-FINDING lines, exit code.
use super::*;
use crate::util;
use std::collections::{BTreeMap, HashSet};
use std::io::Read;
use std::process::{Command, Stdio};

pub const VERIF_ROOT: &str = "/verif";

fn seed_from_env() -> u64 {
    std::env::var("VERIF_SEED")
        .ok()
        .and_then(|s| s.trim().parse::<i128>().ok())
        .map(|v| v as u64)
        .unwrap_or(20240101)
}

fn out_dir(id: &str) -> String {
    let d = format!("{}/out/run-{}-{}", VERIF_ROOT, id, std::process::id());
    let _ = std::fs::create_dir_all(&d);
    d
}

pub struct ReplayFile {
    pub path: String,
    pub property: String,
    pub bytes: Vec<u8>,
    pub expect: String,
}

pub fn read_replay(path: &str) -> Option<ReplayFile> {
    let s = std::fs::read_to_string(path).ok()?;
    let v: Value = serde_json::from_str(&s).ok()?;
    Some(ReplayFile {
        path: path.to_string(),
        property: v.get("property")?.as_str()?.to_string(),
        bytes: util::unhex(v.get("bytes")?.as_str()?),
        expect: v.get("expect").and_then(|e| e.as_str()).unwrap_or("pass").to_string(),
    })
}

pub fn write_replay(id: &str, bytes_hex: &str, f: &Failure, seed: u64) -> String {
    let dir = format!("{}/out/replays", VERIF_ROOT);
    let _ = std::fs::create_dir_all(&dir);
    let h = util::fnv64(format!("{}{}{}{}", bytes_hex, f.clause, f.key, f.decoded).as_bytes());
    let path = format!("{}/{}-{}-{:016x}.json", dir, id, seed, h);
    let v = serde_json::json!({
        "property": id,
        "bytes": bytes_hex,
        "expect": "pass",
        "clause": f.clause,
        "key": f.key,
        "detail": f.detail,
        "decoded": f.decoded,
    });
    let _ = std::fs::write(&path, serde_json::to_string_pretty(&v).unwrap());
    path
}

/// Run a single case in a fresh child process; returns the failure if any (None = pass),
/// Err on crash/timeout of the child.
pub fn run_case_in_child(id: &str, bytes: &[u8], timeout_s: u64) -> Result<Option<Failure>, String> {
    run_case_in_child_from(id, bytes, None, timeout_s)
}

/// `replay_file`: when the byte string is empty the child runs the `decoded` case of that file
pub fn run_case_in_child_from(id: &str, bytes: &[u8], replay_file: Option<&str>, timeout_s: u64) -> Result<Option<Failure>, String> {
    let exe = std::env::current_exe().map_err(|e| e.to_string())?;
    let mut child = Command::new(exe)
        .arg("case")
        .arg(id)
        .arg(if bytes.is_empty() { "-".to_string() } else { util::hex(bytes) })
        .arg(replay_file.unwrap_or(""))
        .stdout(Stdio::piped())
        .stderr(Stdio::null())
        .spawn()
        .map_err(|e| e.to_string())?;
    let t0 = std::time::Instant::now();
    loop {
        match child.try_wait() {
            Ok(Some(_)) => break,
            Ok(None) => {
                if t0.elapsed().as_secs() > timeout_s {
                    let _ = child.kill();
                    let _ = child.wait();
                    return Err("timeout".into());
                }
                std::thread::sleep(std::time::Duration::from_millis(2));
            }
            Err(e) => return Err(e.to_string()),
        }
    }
    let mut out = String::new();
    if let Some(mut so) = child.stdout.take() {
        let _ = so.read_to_string(&mut out);
    }
    for line in out.lines() {
        if let Some(j) = line.strip_prefix("CASE-RESULT ") {
            let v: Value = serde_json::from_str(j).map_err(|e| e.to_string())?;
            if v.get("pass").and_then(|p| p.as_bool()) == Some(true) {
                return Ok(None);
            }
            let f: Failure = serde_json::from_value(v.get("failure").cloned().unwrap_or(Value::Null))
                .map_err(|e| e.to_string())?;
            return Ok(Some(f));
        }
    }
    Err(format!("child produced no result: {}", out.chars().take(200).collect::<String>()))
}

/// Driver-level shrinking for failures that leave the process dirty: delta-debugging on the byte
/// string, each candidate judged in a fresh child process; a candidate is kept when it fails
/// with the same clause.
pub fn shrink_in_children(id: &str, bytes: &[u8], clause: &str, max_runs: usize) -> (Vec<u8>, Option<Failure>) {
    let mut cur = bytes.to_vec();
    let mut cur_fail: Option<Failure> = None;
    let mut runs = 0usize;
    let mut chunk = (cur.len() / 2).max(1);
    while chunk >= 1 && runs < max_runs {
        let mut i = 0;
        let mut progressed = false;
        while i < cur.len() && runs < max_runs {
            let end = (i + chunk).min(cur.len());
            let mut cand = cur.clone();
            cand.drain(i..end);
            runs += 1;
            match run_case_in_child(id, &cand, 60) {
                Ok(Some(f)) if f.clause == clause => {
                    cur = cand;
                    cur_fail = Some(f);
                    progressed = true;
                }
                _ => {
                    i = end;
                }
            }
        }
        if chunk == 1 && !progressed {
            break;
        }
        if !progressed {
            chunk /= 2;
        }
    }
    // zero out bytes
    let mut i = 0;
    while i < cur.len() && runs < max_runs {
        if cur[i] != 0 {
            let mut cand = cur.clone();
            cand[i] = 0;
            runs += 1;
            if let Ok(Some(f)) = run_case_in_child(id, &cand, 60) {
                if f.clause == clause {
                    cur = cand;
                    cur_fail = Some(f);
                }
            }
        }
        i += 1;
    }
    (cur, cur_fail)
}

pub struct FuzzOutcome {
    pub target: String,
    pub runs: u64,
    pub cov: u64,
    pub corpus: u64,
    pub crash: Option<String>,
    pub note: String,
}

/// One libFuzzer campaign (cargo-fuzz, nightly): fixed number of runs, seeded, fresh corpus directory
/// (plus the committed seeds of /verif/corpus/<target>/ if present).
pub fn fuzz_campaign(id: &str, target: &str, runs: u64, max_len: usize, seed: u64, timeout_s: u64) -> FuzzOutcome {
    let corpus = format!("{}/out/fz-{}-{}/{}", VERIF_ROOT, id, std::process::id(), target);
    let _ = std::fs::create_dir_all(&corpus);
    let art = format!("{}/out/fuzz-artifacts/{}-{}/", VERIF_ROOT, id, target);
    let _ = std::fs::create_dir_all(&art);
    let seeds = format!("{}/corpus/{}", VERIF_ROOT, if target == "prop" { id } else { target });
    let mut cmd = Command::new("cargo");
    cmd.current_dir(format!("{}/harness", VERIF_ROOT))
        .env("RUSTFLAGS", "--cfg sentinel_verif")
        .env("CARGO_NET_OFFLINE", "true")
        .env("SVCHECK_PROP", id)
        .args(["+nightly", "fuzz", "run", "--fuzz-dir", &format!("{}/fuzz", VERIF_ROOT), "--target-dir", &format!("{}/target/fuzz", VERIF_ROOT), target, &corpus]);
    if std::path::Path::new(&seeds).is_dir() {
        cmd.arg(&seeds);
    }
    cmd.args(["--", &format!("-runs={}", runs), &format!("-seed={}", (seed % 0xffff_ffff).max(1)), &format!("-max_len={}", max_len), "-len_control=0", &format!("-artifact_prefix={}", art), "-print_final_stats=1"]);
    cmd.stdout(Stdio::null()).stderr(Stdio::piped());
    let mut out = FuzzOutcome { target: target.to_string(), runs: 0, cov: 0, corpus: 0, crash: None, note: String::new() };
    let mut child = match cmd.spawn() {
        Ok(c) => c,
        Err(e) => {
            out.note = format!("spawn failed: {}", e);
            return out;
        }
    };
    let se = child.stderr.take();
    let h = std::thread::spawn(move || {
        let mut s = String::new();
        if let Some(mut se) = se {
            let _ = se.read_to_string(&mut s);
        }
        s
    });
    let t0 = std::time::Instant::now();
    loop {
        match child.try_wait() {
            Ok(Some(_)) => break,
            Ok(None) => {
                if t0.elapsed().as_secs() > timeout_s {
                    let _ = child.kill();
                    let _ = child.wait();
                    out.note = "wall-clock budget exhausted (inconclusive, not a violation)".into();
                    break;
                }
                std::thread::sleep(std::time::Duration::from_millis(200));
            }
            Err(_) => break,
        }
    }
    let log = h.join().unwrap_or_default();
    for line in log.lines() {
        if let Some(r) = line.strip_prefix("stat::number_of_executed_units:") {
            out.runs = r.trim().parse().unwrap_or(0);
        }
        if line.starts_with('#') && line.contains("cov:") {
            let toks: Vec<&str> = line.split_whitespace().collect();
            for w in toks.windows(2) {
                if w[0] == "cov:" {
                    out.cov = w[1].parse().unwrap_or(out.cov);
                }
                if w[0] == "corp:" {
                    out.corpus = w[1].split('/').next().unwrap_or("0").parse().unwrap_or(out.corpus);
                }
            }
            if out.runs == 0 {
                out.runs = toks[0].trim_start_matches('#').parse().unwrap_or(0);
            }
        }
        if let Some(i) = line.find("Test unit written to ") {
            out.crash = Some(line[i + 21..].trim().to_string());
        }
        if line.contains("ORACLE-FAIL") || line.contains("panicked at") {
            out.note = line.chars().take(400).collect();
        }
        if line.contains("error: could not compile") || line.contains("error[") {
            out.note = format!("fuzz build failed: {}", line);
        }
    }
    let _ = std::fs::remove_dir_all(format!("{}/out/fz-{}-{}", VERIF_ROOT, id, std::process::id()));
    out
}

pub fn check(id: &str, tier: Tier) -> i32 {
    let prop = match find_property(id) {
        Some(p) => p,
        None => {
            eprintln!("unknown property {}", id);
            return 2;
        }
    };
    let seed = seed_from_env();
    let t0 = std::time::Instant::now();
    let known = findings::for_property(id);
    let budget = prop.budget(tier);
    let dir = out_dir(id);
    let exe = std::env::current_exe().unwrap();
    let mut violations: Vec<(String, Failure)> = Vec::new(); // (replay path, failure)
    let mut known_hits: BTreeMap<String, u64> = BTreeMap::new();
    let mut inconclusive: Vec<String> = Vec::new();

    // 1. committed replays (each in a child process so a dirty one cannot contaminate the others)
    let mut replays_run = 0u64;
    let rdir = format!("{}/replays/{}", VERIF_ROOT, id);
    if let Ok(rd) = std::fs::read_dir(&rdir) {
        let mut files: Vec<_> = rd.filter_map(|e| e.ok()).map(|e| e.path()).collect();
        files.sort();
        for f in files {
            let p = f.to_string_lossy().to_string();
            if !p.ends_with(".json") {
                continue;
            }
            if let Some(r) = read_replay(&p) {
                replays_run += 1;
                match run_case_in_child_from(id, &r.bytes, Some(&p), 300) {
                    Ok(None) => {
                        if r.expect.starts_with("known:") {
                            println!("NOTE: property={} replay {} (expected known finding {}) now passes", id, p, &r.expect[6..]);
                        }
                    }
                    Ok(Some(fl)) => {
                        if known.contains_key(&fl.key) {
                            *known_hits.entry(fl.key.clone()).or_insert(0) += 1;
                        } else {
                            violations.push((p.clone(), fl));
                        }
                    }
                    Err(e) => inconclusive.push(format!("replay {}: {}", p, e)),
                }
            }
        }
    }

    // 2. shards
    let timeout_s: u64 = std::env::var("VERIF_SHARD_TIMEOUT_S")
        .ok()
        .and_then(|s| s.parse().ok())
        .unwrap_or(if tier == Tier::Quick { 1500 } else { 6 * 3600 });
    let mut children = Vec::new();
    for sh in 0..budget.shards {
        let child = Command::new(&exe)
            .arg("shard")
            .arg(id)
            .arg(tier.name())
            .arg(sh.to_string())
            .arg(budget.shards.to_string())
            .arg(seed.to_string())
            .arg(&dir)
            .stdout(Stdio::piped())
            .stderr(Stdio::inherit())
            .spawn();
        match child {
            Ok(c) => children.push((sh, c)),
            Err(e) => inconclusive.push(format!("spawn shard {}: {}", sh, e)),
        }
    }
    let mut results: Vec<ShardResult> = Vec::new();
    let start = std::time::Instant::now();
    // read outputs in threads to avoid pipe blocking
    let mut handles = Vec::new();
    for (sh, mut c) in children {
        let so = c.stdout.take();
        let h = std::thread::spawn(move || {
            let mut s = String::new();
            if let Some(mut so) = so {
                let _ = so.read_to_string(&mut s);
            }
            s
        });
        handles.push((sh, c, h));
    }
    for (sh, mut c, h) in handles {
        let status;
        loop {
            match c.try_wait() {
                Ok(Some(st)) => {
                    status = Some(st);
                    break;
                }
                Ok(None) => {
                    if start.elapsed().as_secs() > timeout_s {
                        let _ = c.kill();
                        let _ = c.wait();
                        status = None;
                        break;
                    }
                    std::thread::sleep(std::time::Duration::from_millis(20));
                }
                Err(_) => {
                    status = None;
                    break;
                }
            }
        }
        let out = h.join().unwrap_or_default();
        let mut got = false;
        for line in out.lines() {
            if let Some(j) = line.strip_prefix("SHARD-RESULT ") {
                if let Ok(r) = serde_json::from_str::<ShardResult>(j) {
                    results.push(r);
                    got = true;
                }
            }
        }
        if !got {
            // a shard that ended with a fatal scheduler verdict (deadlock) reports it on its way out
            for line in out.lines() {
                if let Some(j) = line.strip_prefix("FATAL-FAILURE ") {
                    if let Ok(v) = serde_json::from_str::<Value>(j) {
                        if let Ok(f) = serde_json::from_value::<Failure>(v["failure"].clone()) {
                            results.push(ShardResult {
                                shard: sh,
                                evaluations: 1,
                                failure: Some(ShardFailure { bytes_hex: v["bytes_hex"].as_str().unwrap_or("").to_string(), failure: f, shrunk: false }),
                                ..Default::default()
                            });
                            got = true;
                        }
                    }
                }
            }
        }
        if !got {
            inconclusive.push(format!(
                "shard {} produced no result (status {:?}{})",
                sh,
                status.map(|s| s.to_string()),
                if status.is_none() { ", watchdog/timeout" } else { "" }
            ));
        }
    }

    // 3. merge
    let mut evaluations = replays_run;
    let mut nontrivial_total = 0u64;
    let mut classes: BTreeMap<String, u64> = BTreeMap::new();
    let mut counters: BTreeMap<String, u64> = BTreeMap::new();
    let mut samples: Vec<Value> = Vec::new();
    let mut digests: HashSet<u64> = HashSet::new();
    let mut extra: Option<Value> = None;
    let mut extra_evals = 0u64;
    let mut best_failure: Option<ShardFailure> = None;
    for r in &results {
        evaluations += r.evaluations + r.extra_evaluations;
        extra_evals += r.extra_evaluations;
        nontrivial_total += r.nontrivial;
        for (k, v) in &r.classes {
            *classes.entry(k.clone()).or_insert(0) += v;
        }
        for (k, v) in &r.counters {
            *counters.entry(k.clone()).or_insert(0) += v;
        }
        for (k, v) in &r.known_hits {
            *known_hits.entry(k.clone()).or_insert(0) += v;
        }
        if samples.len() < 5 {
            for s in r.samples.iter().take(2) {
                if samples.len() < 5 {
                    samples.push(s.clone());
                }
            }
        }
        if let Some(p) = &r.digests_file {
            if let Ok(b) = std::fs::read(p) {
                for ch in b.chunks_exact(8) {
                    digests.insert(u64::from_le_bytes(ch.try_into().unwrap()));
                }
            }
        }
        if r.extra.is_some() {
            extra = r.extra.clone();
        }
        if let Some(i) = &r.inconclusive {
            inconclusive.push(format!("shard {}: {}", r.shard, i));
        }
        if let Some(f) = &r.failure {
            let better = match &best_failure {
                None => true,
                Some(b) => f.bytes_hex.len() < b.bytes_hex.len(),
            };
            if better {
                best_failure = Some(f.clone());
            }
        }
    }
    if let Some(f) = &best_failure {
        if f.failure.clause.starts_with("inconclusive") {
            inconclusive.push(format!("{}: {}", f.failure.clause, f.failure.detail));
            best_failure = None;
        }
    }
    if let Some(mut f) = best_failure {
        if !f.shrunk && !f.bytes_hex.is_empty() {
            let bytes = util::unhex(&f.bytes_hex);
            let (b2, f2) = shrink_in_children(id, &bytes, &f.failure.clause, 400);
            if let Some(f2) = f2 {
                f.bytes_hex = util::hex(&b2);
                f.failure = f2;
                f.shrunk = true;
            }
        }
        if known.contains_key(&f.failure.key) {
            *known_hits.entry(f.failure.key.clone()).or_insert(0) += 1;
        } else {
            let path = write_replay(id, &f.bytes_hex, &f.failure, seed);
            violations.push((path, f.failure.clone()));
        }
    }
    let _ = std::fs::remove_dir_all(&dir);

    // 3b. coverage-guided campaigns (thorough tier only)
    let mut fuzz_json: Vec<Value> = Vec::new();
    if tier == Tier::Thorough && std::env::var("VERIF_NO_FUZZ").is_err() {
        for (target, runs, max_len) in prop.fuzz_targets() {
            let o = fuzz_campaign(id, target, runs, max_len, seed, 4 * 3600);
            evaluations += o.runs;
            if let Some(path) = &o.crash {
                let bytes = std::fs::read(path).unwrap_or_default();
                if target == "prop" {
                    // confirm with the strict oracle in a fresh process
                    match run_case_in_child(id, &bytes, 600) {
                        Ok(Some(fl)) => {
                            if known.contains_key(&fl.key) {
                                *known_hits.entry(fl.key.clone()).or_insert(0) += 1;
                            } else {
                                let (b2, f2) = shrink_in_children(id, &bytes, &fl.clause, 300);
                                let f3 = f2.unwrap_or(fl);
                                let rp = write_replay(id, &util::hex(&b2), &f3, seed);
                                violations.push((rp, f3));
                            }
                        }
                        Ok(None) => inconclusive.push(format!("fuzz target {} saved {} but the strict replay passes", target, path)),
                        Err(e) => inconclusive.push(format!("fuzz target {}: replay of {} failed: {}", target, path, e)),
                    }
                } else {
                    let fl = Failure {
                        clause: "fuzz-crash".into(),
                        key: format!("{}|fuzz|{}", id, target),
                        detail: format!("libFuzzer target {} crashed: {} (input saved at {}; replay: target/fuzz/x86_64-unknown-linux-gnu/release/{} <file>)", target, o.note, path, target),
                        decoded: serde_json::json!({"fuzz_target": target, "artifact": path, "bytes": util::hex(&bytes)}),
                    };
                    let rp = write_replay(id, &util::hex(&bytes), &fl, seed);
                    violations.push((rp, fl));
                }
            } else if o.runs == 0 {
                inconclusive.push(format!("fuzz target {} did not run: {}", target, o.note));
            }
            fuzz_json.push(serde_json::json!({"target": target, "runs": o.runs, "edges_covered": o.cov, "corpus_units": o.corpus, "crash": o.crash, "note": o.note}));
        }
    }

    // 4. evidence
    let wall = t0.elapsed().as_secs_f64();
    if samples.is_empty() {
        samples.push(serde_json::json!({"note": "no non-trivial sample captured in this run"}));
    }
    let mut coverage = serde_json::json!({
        "evaluations": evaluations,
        "distinct_nontrivial": digests.len(),
        "nontrivial_total": nontrivial_total,
        "rule": prop.rule(),
        "samples": samples,
        "classes": classes,
        "counters": counters,
        "replays_run": replays_run,
        "shards": budget.shards,
        "cases_per_shard": budget.cases,
        "known_finding_hits": known_hits,
        "inconclusive": inconclusive,
        "exhaustive": false,
    });
    if !fuzz_json.is_empty() {
        coverage["fuzz_campaigns"] = Value::Array(fuzz_json);
    }
    if let Some(e) = extra {
        coverage["extra"] = e;
        coverage["extra_evaluations"] = serde_json::json!(extra_evals);
    }
    let evidence = serde_json::json!({
        "property_id": id,
        "tier": tier.name(),
        "seed": seed as i64,
        "level": prop.level(),
        "coverage": coverage,
        "assumptions": prop.assumptions(),
        "wall_s": wall,
        "violations": violations.len(),
    });
    // registered commands always write /verif/evidence/<id>.json; VERIF_EVIDENCE_DIR is an exploration aid
    let edir = std::env::var("VERIF_EVIDENCE_DIR").unwrap_or_else(|_| format!("{}/evidence", VERIF_ROOT));
    let _ = std::fs::create_dir_all(&edir);
    let epath = format!("{}/{}.json", edir, id);
    let _ = std::fs::write(&epath, serde_json::to_string_pretty(&evidence).unwrap() + "\n");

    // 5. report
    for (k, n) in &known_hits {
        let what = known.get(k).cloned().unwrap_or_default();
        println!("KNOWN-FINDING: property={} key={} hits={} {}", id, k, n, what);
    }
    println!(
        "property={} tier={} seed={} evaluations={} distinct_nontrivial={} wall_s={:.1}",
        id,
        tier.name(),
        seed,
        evaluations,
        digests.len(),
        wall
    );
    if !violations.is_empty() {
        for (path, f) in &violations {
            println!("VIOLATION property={} replay={}", id, path);
            println!("  clause: {}\n  key: {}\n  detail: {}", f.clause, f.key, f.detail.chars().take(600).collect::<String>());
        }
        return 1;
    }
    if !inconclusive.is_empty() {
        for i in &inconclusive {
            println!("INCONCLUSIVE property={} {}", id, i);
        }
        return 2;
    }
    // generator health: a near-vacuous run is a broken check, not a pass
    if digests.len() < 2 {
        println!("INCONCLUSIVE property={} generator produced fewer than 2 distinct non-trivial cases", id);
        return 2;
    }
    0
}

pub fn replay(path: &str) -> i32 {
    let r = match read_replay(path) {
        Some(r) => r,
        None => {
            eprintln!("cannot read replay {}", path);
            return 2;
        }
    };
    let known = findings::for_property(&r.property);
    match run_case_in_child_from(&r.property, &r.bytes, Some(path), 600) {
        Ok(None) => {
            println!("replay {}: property {} holds on this input", path, r.property);
            0
        }
        Ok(Some(f)) => {
            if let Some(w) = known.get(&f.key) {
                println!("KNOWN-FINDING: property={} key={} {}", r.property, f.key, w);
                println!("  clause: {}\n  detail: {}", f.clause, f.detail);
                0
            } else {
                println!("VIOLATION property={} replay={}", r.property, path);
                println!("  clause: {}\n  key: {}\n  detail: {}\n  decoded: {}", f.clause, f.key, f.detail, f.decoded);
                1
            }
        }
        Err(e) => {
            println!("INCONCLUSIVE property={} replay {}: {}", r.property, path, e);
            2
        }
    }
}
