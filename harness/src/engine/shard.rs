//! One shard = one process running a fixed number of generated cases of one property.
use super::*;
use crate::util;
use proptest::collection::vec;
use proptest::prelude::any;
use proptest::test_runner::{Config, RngSeed, TestCaseError, TestError, TestRunner};
use std::cell::RefCell;
use std::collections::{BTreeMap, HashSet};
use std::panic::{catch_unwind, AssertUnwindSafe};

thread_local! {
    static LAST_PANIC: RefCell<Option<String>> = RefCell::new(None);
}

pub fn install_quiet_panic_hook() {
    std::panic::set_hook(Box::new(|info| {
        let msg = if let Some(s) = info.payload().downcast_ref::<&str>() {
            s.to_string()
        } else if let Some(s) = info.payload().downcast_ref::<String>() {
            s.clone()
        } else {
            "<non-string panic>".to_string()
        };
        let loc = info
            .location()
            .map(|l| format!("{}:{}", l.file(), l.line()))
            .unwrap_or_default();
        LAST_PANIC.with(|p| *p.borrow_mut() = Some(format!("{} @ {}", msg, loc)));
        if std::env::var("VERIF_VERBOSE_PANIC").is_ok() {
            eprintln!("[panic] {} @ {}", msg, loc);
        }
    }));
}

pub fn take_last_panic() -> Option<String> {
    LAST_PANIC.with(|p| p.borrow_mut().take())
}

/// Run one case, converting panics into failures with clause `panic`.
pub fn run_guarded(prop: &dyn Property, bytes: &[u8], cfg: &RunCfg) -> Verdict {
    let r = catch_unwind(AssertUnwindSafe(|| prop.run(bytes, cfg)));
    match r {
        Ok(v) => v,
        Err(_) => {
            let msg = take_last_panic().unwrap_or_else(|| "<unknown panic>".into());
            // location part is the stable signature
            let loc = msg.rsplit(" @ ").next().unwrap_or("").to_string();
            let parts: Vec<&str> = loc.rsplit('/').take(2).collect();
            let loc_file = parts.into_iter().rev().collect::<Vec<_>>().join("/");
            Verdict::Fail(Failure {
                clause: "panic".into(),
                key: format!("{}|panic|{}", prop.id(), loc_file),
                detail: msg,
                decoded: prop.describe(bytes).unwrap_or_else(|| serde_json::json!({"bytes": util::hex(bytes)})),
            })
        }
    }
}

pub struct ShardArgs {
    pub id: String,
    pub tier: Tier,
    pub shard: u32,
    pub nshards: u32,
    pub seed: u64,
    pub out_dir: String,
}

pub fn run_shard(args: &ShardArgs) -> ShardResult {
    let prop = find_property(&args.id).expect("unknown property");
    let prop: &dyn Property = &*prop;
    install_quiet_panic_hook();
    util::set_shard_tag(args.shard as u64);
    util::clock::init();
    prop.setup();
    let mut budget = prop.budget(args.tier);
    if let Some(n) = std::env::var("VERIF_CASES").ok().and_then(|s| s.parse::<u32>().ok()) {
        budget.cases = n; // exploration aid; registered commands never set it
    }
    let known = findings::for_property(prop.id());
    let t0 = std::time::Instant::now();

    let mut res = ShardResult { shard: args.shard, ..Default::default() };
    let mut digests: HashSet<u64> = HashSet::new();
    let mut classes: BTreeMap<String, u64> = BTreeMap::new();
    let mut counters: BTreeMap<String, u64> = BTreeMap::new();
    let mut known_hits: BTreeMap<String, u64> = BTreeMap::new();
    let mut samples: Vec<Value> = Vec::new();
    let mut evaluations: u64 = 0;
    let mut nontrivial: u64 = 0;
    let mut first_failure: Option<(Vec<u8>, Failure)> = None;
    let dirty = prop.dirty_on_fail();
    let max_samples = 4usize;

    // extra (non-generated) work: only shard 0
    if args.shard == 0 {
        if let Some(r) = prop.extra(args.tier) {
            match r {
                Ok((n, v)) => {
                    res.extra_evaluations = n;
                    res.extra = Some(v);
                }
                Err(f) => {
                    if let Some(_w) = known.get(&f.key) {
                        *known_hits.entry(f.key.clone()).or_insert(0) += 1;
                    } else {
                        first_failure = Some((Vec::new(), f));
                    }
                }
            }
        }
    }

    if first_failure.is_none() && budget.cases > 0 {
        let seed = args
            .seed
            .wrapping_mul(0x9E3779B97F4A7C15)
            .wrapping_add((args.shard as u64 + 1).wrapping_mul(0xD1B54A32D192ED03));
        let config = Config {
            cases: budget.cases,
            rng_seed: RngSeed::Fixed(seed),
            failure_persistence: None,
            max_shrink_iters: if dirty { 0 } else { 4096 },
            max_local_rejects: 1,
            max_global_rejects: 1,
            ..Config::default()
        };
        let mut runner = TestRunner::new(config);
        let strat = vec(any::<u8>(), budget.min_len..=budget.max_len);
        struct Acc {
            failed: bool,
            stop_shrink: bool,
            evaluations: u64,
            nontrivial: u64,
            digests: HashSet<u64>,
            classes: BTreeMap<String, u64>,
            counters: BTreeMap<String, u64>,
            known_hits: BTreeMap<String, u64>,
            samples: Vec<Value>,
            first_failure: Option<(Vec<u8>, Failure)>,
        }
        let acc = RefCell::new(Acc {
            failed: false,
            stop_shrink: false,
            evaluations,
            nontrivial,
            digests: std::mem::take(&mut digests),
            classes: std::mem::take(&mut classes),
            counters: std::mem::take(&mut counters),
            known_hits: std::mem::take(&mut known_hits),
            samples: std::mem::take(&mut samples),
            first_failure: None,
        });
        let outcome = runner.run(&strat, |bytes| {
            let mut a = acc.borrow_mut();
            if a.failed && (dirty || a.stop_shrink) {
                return Ok(());
            }
            let want = !a.failed && a.samples.len() < max_samples;
            let cfg = RunCfg { tier: args.tier, want_decoded: want, strict: false };
            match run_guarded(prop, &bytes, &cfg) {
                Verdict::Pass(rep) => {
                    if !a.failed {
                        a.evaluations += 1;
                        for c in &rep.classes {
                            *a.classes.entry(c.to_string()).or_insert(0) += 1;
                        }
                        for (k, v) in &rep.counters {
                            *a.counters.entry(k.to_string()).or_insert(0) += *v;
                        }
                        for k in &rep.known_hits {
                            *a.known_hits.entry(k.clone()).or_insert(0) += 1;
                        }
                        if rep.nontrivial {
                            a.nontrivial += 1;
                            a.digests.insert(rep.digest);
                            if a.samples.len() < max_samples {
                                if let Some(d) = rep.decoded {
                                    a.samples.push(d);
                                }
                            }
                        }
                    }
                    Ok(())
                }
                Verdict::Fail(f) => {
                    if known.contains_key(&f.key) {
                        if !a.failed {
                            a.evaluations += 1;
                            *a.known_hits.entry(f.key.clone()).or_insert(0) += 1;
                        }
                        return Ok(());
                    }
                    if !a.failed {
                        a.evaluations += 1;
                        a.failed = true;
                        // a panic inside Sentinel may have poisoned a lock: do not shrink in-process
                        a.stop_shrink = f.clause == "panic";
                        a.first_failure = Some((bytes.clone(), f.clone()));
                    }
                    Err(TestCaseError::fail(f.clause))
                }
            }
        });
        let a = acc.into_inner();
        evaluations = a.evaluations;
        nontrivial = a.nontrivial;
        digests = a.digests;
        classes = a.classes;
        counters = a.counters;
        known_hits = a.known_hits;
        samples = a.samples;
        first_failure = a.first_failure;
        let stop_shrink = a.stop_shrink;
        match outcome {
            Ok(()) => {
                // dirty property: the failure was swallowed after being recorded
            }
            Err(TestError::Fail(_, minimal)) => {
                // re-run the minimal input to get its failure record
                let cfg = RunCfg { tier: args.tier, want_decoded: true, strict: false };
                if !dirty && !stop_shrink {
                    if let Verdict::Fail(f) = run_guarded(prop, &minimal, &cfg) {
                        let same = first_failure.as_ref().map(|(_, f0)| f0.clause == f.clause).unwrap_or(true);
                        if same && !known.contains_key(&f.key) {
                            res.failure = Some(ShardFailure {
                                bytes_hex: util::hex(&minimal),
                                failure: f,
                                shrunk: true,
                            });
                        }
                    }
                }
            }
            Err(TestError::Abort(r)) => {
                res.inconclusive = Some(format!("proptest aborted: {}", r));
            }
        }
    }
    if res.failure.is_none() {
        if let Some((b, f)) = first_failure {
            res.failure = Some(ShardFailure { bytes_hex: util::hex(&b), failure: f, shrunk: false });
        }
    }
    res.evaluations = evaluations;
    res.nontrivial = nontrivial;
    res.classes = classes;
    res.counters = counters;
    res.known_hits = known_hits;
    res.samples = samples;
    // digests to file (binary u64 LE)
    let path = format!("{}/digests-{}.bin", args.out_dir, args.shard);
    let mut buf = Vec::with_capacity(digests.len() * 8);
    for d in &digests {
        buf.extend_from_slice(&d.to_le_bytes());
    }
    if std::fs::write(&path, &buf).is_ok() {
        res.digests_file = Some(path);
    }
    res.wall_s = t0.elapsed().as_secs_f64();
    res
}
