//! The engine: property trait, per-shard proptest runner, multi-process driver, evidence, replay.
pub mod bytes;
pub mod driver;
pub mod findings;
pub mod shard;

pub use bytes::Bytes;
use serde::{Deserialize, Serialize};
use serde_json::Value;

#[derive(Debug, Clone, Copy, PartialEq, Eq)]
pub enum Tier {
    Quick,
    Thorough,
}

impl Tier {
    pub fn parse(s: &str) -> Tier {
        if s == "thorough" {
            Tier::Thorough
        } else {
            Tier::Quick
        }
    }
    pub fn name(&self) -> &'static str {
        match self {
            Tier::Quick => "quick",
            Tier::Thorough => "thorough",
        }
    }
}

/// What a passing case reports back to the engine.
#[derive(Debug, Clone, Default)]
pub struct CaseReport {
    /// non-trivial by the property's stated rule
    pub nontrivial: bool,
    /// generator classes this case falls into (measured distribution)
    pub classes: Vec<&'static str>,
    /// digest of the *decoded* case (distinctness is counted on decoded cases, not bytes)
    pub digest: u64,
    /// the decoded case, written out (kept only for a few samples)
    pub decoded: Option<Value>,
    /// known findings hit (signature keys) while the case otherwise passed
    pub known_hits: Vec<String>,
    /// free numeric counters merged by summation (e.g. queued admissions)
    pub counters: Vec<(&'static str, u64)>,
}

#[derive(Debug, Clone, Serialize, Deserialize)]
pub struct Failure {
    /// oracle clause that failed
    pub clause: String,
    /// specific signature used to match known findings
    pub key: String,
    pub detail: String,
    pub decoded: Value,
}

pub enum Verdict {
    Pass(CaseReport),
    Fail(Failure),
}

pub struct RunCfg {
    pub tier: Tier,
    /// ask the property to fill `CaseReport::decoded`
    pub want_decoded: bool,
    /// strict mode (replay): known findings are reported as failures too
    pub strict: bool,
}

#[derive(Debug, Clone)]
pub struct Budget {
    /// cases per shard
    pub cases: u32,
    pub shards: u32,
    pub min_len: usize,
    pub max_len: usize,
}

pub trait Property: Sync {
    fn id(&self) -> &'static str;
    fn level(&self) -> &'static str {
        "exploration"
    }
    fn budget(&self, tier: Tier) -> Budget;
    /// how cases are generated and what makes one non-trivial / distinct
    fn rule(&self) -> String;
    fn assumptions(&self) -> Vec<String>;
    /// true if a failure may leave global state dirty (poisoned lock): the shard stops after it
    fn dirty_on_fail(&self) -> bool {
        false
    }
    /// one-time per-process preparation
    fn setup(&self) {}
    fn run(&self, bytes: &[u8], cfg: &RunCfg) -> Verdict;
    /// run a case given in decoded (JSON) form: used to replay failures found by enumeration
    /// (`extra`), for which no byte string exists
    fn run_decoded(&self, _decoded: &Value, _cfg: &RunCfg) -> Option<Verdict> {
        None
    }
    /// coverage-guided campaigns run by the thorough tier: (cargo-fuzz target, runs, max_len).
    /// Target `prop` drives this property's own decoder and oracle; the others are byte-level targets.
    fn fuzz_targets(&self) -> Vec<(&'static str, u64, usize)> {
        vec![]
    }
    /// the decoded case as JSON (used to describe a case whose run panicked)
    fn describe(&self, _bytes: &[u8]) -> Option<Value> {
        None
    }
    /// extra, non-generated work done once per check by shard 0 (e.g. exhaustive sub-domain);
    /// returns (evaluations, extra coverage json)
    fn extra(&self, _tier: Tier) -> Option<Result<(u64, Value), Failure>> {
        None
    }
}

#[derive(Debug, Clone, Serialize, Deserialize, Default)]
pub struct ShardResult {
    pub shard: u32,
    pub evaluations: u64,
    pub nontrivial: u64,
    pub classes: std::collections::BTreeMap<String, u64>,
    pub counters: std::collections::BTreeMap<String, u64>,
    pub known_hits: std::collections::BTreeMap<String, u64>,
    pub samples: Vec<Value>,
    pub failure: Option<ShardFailure>,
    pub digests_file: Option<String>,
    pub extra: Option<Value>,
    pub extra_evaluations: u64,
    pub wall_s: f64,
    pub inconclusive: Option<String>,
}

#[derive(Debug, Clone, Serialize, Deserialize)]
pub struct ShardFailure {
    pub bytes_hex: String,
    pub failure: Failure,
    pub shrunk: bool,
}

pub fn registry() -> Vec<Box<dyn Property>> {
    crate::props::all()
}

pub fn find_property(id: &str) -> Option<Box<dyn Property>> {
    registry().into_iter().find(|p| p.id() == id)
}
