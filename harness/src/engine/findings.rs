//! /verif/known_findings.txt: committed, never written at run time.
//! Lines: `known: property=<id> key=<signature> :: <what fails>`
//!        `fixed: property=<id> <commit> <what failed>`   (suppresses nothing)
use std::collections::BTreeMap;

#[derive(Debug, Clone)]
pub struct Known {
    pub property: String,
    pub key: String,
    pub what: String,
}

pub fn load() -> Vec<Known> {
    let path = std::env::var("VERIF_FINDINGS").unwrap_or_else(|_| "/verif/known_findings.txt".into());
    let mut out = Vec::new();
    if let Ok(s) = std::fs::read_to_string(&path) {
        for line in s.lines() {
            let line = line.trim();
            if let Some(rest) = line.strip_prefix("known:") {
                let rest = rest.trim();
                let (head, what) = match rest.split_once("::") {
                    Some((h, w)) => (h.trim(), w.trim()),
                    None => (rest, ""),
                };
                let mut property = String::new();
                let mut key = String::new();
                for tok in head.split_whitespace() {
                    if let Some(v) = tok.strip_prefix("property=") {
                        property = v.to_string();
                    } else if let Some(v) = tok.strip_prefix("key=") {
                        key = v.to_string();
                    }
                }
                if !property.is_empty() && !key.is_empty() {
                    out.push(Known { property, key, what: what.to_string() });
                }
            }
        }
    }
    out
}

pub fn for_property(id: &str) -> BTreeMap<String, String> {
    load()
        .into_iter()
        .filter(|k| k.property == id)
        .map(|k| (k.key, k.what))
        .collect()
}
