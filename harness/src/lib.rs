//! svcheck: property-based checks for flea1lt/sentinel-rust (see /verif/DESIGN.md).
pub mod engine;
pub mod model;
pub mod props;
pub mod util;
#[cfg(feature = "sched")]
pub mod sched;
