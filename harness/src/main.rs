use svcheck::engine::{self, driver, shard, RunCfg, Tier, Verdict};
use svcheck::util;

fn main() {
    let args: Vec<String> = std::env::args().collect();
    let cmd = args.get(1).map(|s| s.as_str()).unwrap_or("");
    let code = match cmd {
        "check" => {
            let id = args.get(2).expect("check <ID> [quick|thorough]");
            let tier = Tier::parse(args.get(3).map(|s| s.as_str()).unwrap_or(
                &std::env::var("VERIF_TIER").unwrap_or_else(|_| "quick".into()),
            ));
            driver::check(id, tier)
        }
        "shard" => {
            let a = shard::ShardArgs {
                id: args[2].clone(),
                tier: Tier::parse(&args[3]),
                shard: args[4].parse().unwrap(),
                nshards: args[5].parse().unwrap(),
                seed: args[6].parse().unwrap(),
                out_dir: args[7].clone(),
            };
            let r = shard::run_shard(&a);
            println!("SHARD-RESULT {}", serde_json::to_string(&r).unwrap());
            0
        }
        "case" => {
            // case <ID> <hex>: run one case strictly in this process
            let id = &args[2];
            let bytes = util::unhex(args.get(3).map(|s| s.as_str()).unwrap_or(""));
            let prop = engine::find_property(id).expect("unknown property");
            shard::install_quiet_panic_hook();
            util::set_shard_tag(99);
            util::clock::init();
            prop.setup();
            let cfg = RunCfg { tier: Tier::Quick, want_decoded: true, strict: true };
            let v = shard::run_guarded(&*prop, &bytes, &cfg);
            match v {
                Verdict::Pass(rep) => {
                    println!(
                        "CASE-RESULT {}",
                        serde_json::json!({"pass": true, "nontrivial": rep.nontrivial, "classes": rep.classes, "decoded": rep.decoded})
                    );
                }
                Verdict::Fail(f) => {
                    println!("CASE-RESULT {}", serde_json::json!({"pass": false, "failure": f}));
                }
            }
            0
        }
        "replay" => driver::replay(args.get(2).expect("replay <file>")),
        "list" => {
            for p in engine::registry() {
                println!("{}", p.id());
            }
            0
        }
        _ => {
            eprintln!("usage: svcheck check <ID> [quick|thorough] | replay <file> | list");
            2
        }
    };
    std::process::exit(code);
}
