use svcheck::engine::{self, driver, shard, RunCfg, Tier, Verdict};
use svcheck::util;

fn main() {
    let args: Vec<String> = std::env::args().collect();
    let cmd = args.get(1).map(|s| s.as_str()).unwrap_or("");
    let code = match cmd {
        "check" => {
            let id = args.get(2).expect("check <ID> [quick|thorough]");
            let tier = Tier::parse(args.get(3).map(|s| s.as_str()).unwrap_or(
                &std::env::var("VERIF_TIER").unwrap_or_else(|_| "quick".into()),
            ));
            driver::check(id, tier)
        }
        "shard" => {
            let a = shard::ShardArgs {
                id: args[2].clone(),
                tier: Tier::parse(&args[3]),
                shard: args[4].parse().unwrap(),
                nshards: args[5].parse().unwrap(),
                seed: args[6].parse().unwrap(),
                out_dir: args[7].clone(),
            };
            let r = shard::run_shard(&a);
            println!("SHARD-RESULT {}", serde_json::to_string(&r).unwrap());
            0
        }
        "case" => {
            // case <ID> <hex>: run one case strictly in this process
            let id = &args[2];
            let hex_arg = args.get(3).map(|s| s.as_str()).unwrap_or("");
            let bytes = if hex_arg == "-" { Vec::new() } else { util::unhex(hex_arg) };
            let decoded_from_file: Option<serde_json::Value> = if bytes.is_empty() {
                args.get(4)
                    .filter(|p| !p.is_empty())
                    .and_then(|p| std::fs::read_to_string(p).ok())
                    .and_then(|t| serde_json::from_str::<serde_json::Value>(&t).ok())
                    .and_then(|v| v.get("decoded").cloned())
            } else {
                None
            };
            let prop = engine::find_property(id).expect("unknown property");
            shard::install_quiet_panic_hook();
            util::set_shard_tag(99);
            util::clock::init();
            prop.setup();
            let cfg = RunCfg { tier: Tier::Quick, want_decoded: true, strict: true };
            let v = match decoded_from_file.as_ref().and_then(|d| {
                let r = std::panic::catch_unwind(std::panic::AssertUnwindSafe(|| prop.run_decoded(d, &cfg)));
                r.unwrap_or(None)
            }) {
                Some(v) => v,
                None => shard::run_guarded(&*prop, &bytes, &cfg),
            };
            match v {
                Verdict::Pass(rep) => {
                    println!(
                        "CASE-RESULT {}",
                        serde_json::json!({"pass": true, "nontrivial": rep.nontrivial, "classes": rep.classes, "decoded": rep.decoded})
                    );
                }
                Verdict::Fail(f) => {
                    println!("CASE-RESULT {}", serde_json::json!({"pass": false, "failure": f}));
                }
            }
            0
        }
        "replay" => driver::replay(args.get(2).expect("replay <file>")),
        "gen-corpus" => {
            // small valid seed inputs for the byte-level fuzz targets (committed under /verif/corpus)
            use sentinel_core::{circuitbreaker as cb, flow, hotspot, isolation, system};
            let root = "/verif/corpus";
            let w = |dir: &str, name: &str, data: &[u8]| {
                let d = format!("{}/{}", root, dir);
                let _ = std::fs::create_dir_all(&d);
                let _ = std::fs::write(format!("{}/{}", d, name), data);
            };
            let fr = vec![flow::Rule { id: "f1".into(), resource: "abc".into(), threshold: 7.25, stat_interval_ms: 2000, ..Default::default() },
                          flow::Rule { id: "f2".into(), resource: "a|b".into(), threshold: 1.0, control_strategy: flow::ControlStrategy::Throttling, max_queueing_time_ms: 10, ..Default::default() }];
            w("parse_rules", "flow.json", serde_json::to_string(&fr).unwrap().as_bytes());
            let mut items = std::collections::HashMap::new();
            items.insert("a".to_string(), 5u64);
            let hr = vec![hotspot::Rule { id: "h1".into(), resource: "abc".into(), metric_type: hotspot::MetricType::QPS, threshold: 2, burst_count: 1, duration_in_sec: 1, specific_items: items, ..Default::default() }];
            w("parse_rules", "hotspot.json", serde_json::to_string_pretty(&hr).unwrap().as_bytes());
            let br = vec![cb::Rule { id: "b1".into(), resource: "abc".into(), strategy: cb::BreakerStrategy::ErrorRatio, threshold: 0.5, retry_timeout_ms: 3000, stat_interval_ms: 10000, min_request_amount: 10, ..Default::default() }];
            w("parse_rules", "breaker.json", serde_json::to_string(&br).unwrap().as_bytes());
            let ir = vec![isolation::Rule { id: "i1".into(), resource: "abc".into(), threshold: 3, ..Default::default() }];
            w("parse_rules", "isolation.json", serde_json::to_string(&ir).unwrap().as_bytes());
            let sr = vec![system::Rule { id: "s1".into(), metric_type: system::MetricType::InboundQPS, threshold: 100.0, strategy: system::AdaptiveStrategy::BBR }];
            w("parse_rules", "system.json", serde_json::to_string(&sr).unwrap().as_bytes());
            w("parse_rules", "empty.json", b"[]");
            // literal from the repository's metric_item tests
            w("parse_metric_line", "legal.txt", b"1564382218000|2019-07-29 14:36:58|/foo/*|4|9|3|0|25|0|2|1");
            w("parse_metric_line", "short.txt", b"1564382218000|14:36:58|abc|4|9|3|0|25");
            w("parse_yaml", "default.yaml", serde_yaml::to_string(&sentinel_core::config::ConfigEntity::new()).unwrap().as_bytes());
            // search_files: [split hi, split lo, begin, max_lines] + index (2 entries) + two lines
            let mut idx = Vec::new();
            idx.extend_from_slice(&1_709_632_801u64.to_be_bytes());
            idx.extend_from_slice(&0u64.to_be_bytes());
            idx.extend_from_slice(&1_709_632_802u64.to_be_bytes());
            idx.extend_from_slice(&42u64.to_be_bytes());
            let lines = b"1709632801000|10:00:01|alpha|2|6|1|0|14|0|2|2\n1709632802000|10:00:02|alpha|3|9|1|1|21|0|3|3\n";
            let mut f = vec![0u8, 32, 2, 3];
            f.extend_from_slice(&idx);
            f.extend_from_slice(lines);
            w("search_files", "two-seconds.bin", &f);
            println!("corpus written under {}", root);
            0
        }
        "list" => {
            for p in engine::registry() {
                println!("{}", p.id());
            }
            0
        }
        _ => {
            eprintln!("usage: svcheck check <ID> [quick|thorough] | replay <file> | list");
            2
        }
    };
    std::process::exit(code);
}
