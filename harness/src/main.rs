use svcheck::engine::{self, driver, shard, RunCfg, Tier, Verdict};
use svcheck::util;

fn main() {
    let args: Vec<String> = std::env::args().collect();
    let cmd = args.get(1).map(|s| s.as_str()).unwrap_or("");
    let code = match cmd {
        "check" => {
            let id = args.get(2).expect("check <ID> [quick|thorough]");
            let tier = Tier::parse(args.get(3).map(|s| s.as_str()).unwrap_or(
                &std::env::var("VERIF_TIER").unwrap_or_else(|_| "quick".into()),
            ));
            driver::check(id, tier)
        }
        "shard" => {
            let a = shard::ShardArgs {
                id: args[2].clone(),
                tier: Tier::parse(&args[3]),
                shard: args[4].parse().unwrap(),
                nshards: args[5].parse().unwrap(),
                seed: args[6].parse().unwrap(),
                out_dir: args[7].clone(),
            };
            let r = shard::run_shard(&a);
            println!("SHARD-RESULT {}", serde_json::to_string(&r).unwrap());
            0
        }
        "case" => {
            // case <ID> <hex>: run one case strictly in this process
            let id = &args[2];
            let hex_arg = args.get(3).map(|s| s.as_str()).unwrap_or("");
            let bytes = if hex_arg == "-" { Vec::new() } else { util::unhex(hex_arg) };
            let decoded_from_file: Option<serde_json::Value> = if bytes.is_empty() {
                args.get(4)
                    .filter(|p| !p.is_empty())
                    .and_then(|p| std::fs::read_to_string(p).ok())
                    .and_then(|t| serde_json::from_str::<serde_json::Value>(&t).ok())
                    .and_then(|v| v.get("decoded").cloned())
            } else {
                None
            };
            let prop = engine::find_property(id).expect("unknown property");
            shard::install_quiet_panic_hook();
            util::set_shard_tag(99);
            util::clock::init();
            prop.setup();
            let cfg = RunCfg { tier: Tier::Quick, want_decoded: true, strict: true };
            let v = match decoded_from_file.as_ref().and_then(|d| {
                let r = std::panic::catch_unwind(std::panic::AssertUnwindSafe(|| prop.run_decoded(d, &cfg)));
                r.unwrap_or(None)
            }) {
                Some(v) => v,
                None => shard::run_guarded(&*prop, &bytes, &cfg),
            };
            match v {
                Verdict::Pass(rep) => {
                    println!(
                        "CASE-RESULT {}",
                        serde_json::json!({"pass": true, "nontrivial": rep.nontrivial, "classes": rep.classes, "decoded": rep.decoded})
                    );
                }
                Verdict::Fail(f) => {
                    println!("CASE-RESULT {}", serde_json::json!({"pass": false, "failure": f}));
                }
            }
            0
        }
        "replay" => driver::replay(args.get(2).expect("replay <file>")),
        "list" => {
            for p in engine::registry() {
                println!("{}", p.id());
            }
            0
        }
        _ => {
            eprintln!("usage: svcheck check <ID> [quick|thorough] | replay <file> | list");
            2
        }
    };
    std::process::exit(code);
}
