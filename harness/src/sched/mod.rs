//! Cooperative scheduler: scenario threads are real OS threads, exactly one runs at a time; every
//! synchronisation operation of sentinel-core (through the `verif_std` shadow of std) is a schedule
//! point. The schedule is data: a list of preemptions `(global point index, choice among the other
//! runnable threads)`; everything else is deterministic (a thread runs until it blocks, yields or
//! finishes; then the runnable thread with the lowest id after it continues).
use std::cell::Cell;
use std::collections::HashMap;
use std::sync::{Arc, Condvar, Mutex};
use verif_std::hooks::{self, Hooks, Op};
pub mod ctx;

#[derive(Debug, Clone, Copy, PartialEq)]
enum Status {
    Runnable,
    Blocked(usize),
    Finished,
}

#[derive(Debug, Clone, serde::Serialize)]
pub struct TraceEv {
    pub tid: usize,
    pub op: String,
    pub addr: usize,
}

#[derive(Debug, Clone, serde::Serialize)]
pub enum Fatal {
    Deadlock { waiting: Vec<(usize, usize)>, held: Vec<(usize, Vec<(usize, bool)>)>, at_point: u32 },
    StepBound { points: u32 },
}

#[derive(Debug, Clone, Default)]
pub struct RunInfo {
    /// number of schedule points executed
    pub points: u32,
    /// for every point index: how many *other* threads were runnable (the branching available there)
    pub alts: Vec<u8>,
    /// preemptions of the schedule that actually switched threads
    pub effective_preemptions: u32,
    /// panics of scenario threads: (tid, message)
    pub panics: Vec<(usize, String)>,
    /// distinct lock addresses a thread held while being preempted (for non-triviality rules)
    pub preempted_holding_lock: u32,
    pub max_locks_held_by_one_thread: usize,
    pub tail: Vec<TraceEv>,
}

struct Core {
    status: Vec<Status>,
    current: usize,
    point_idx: u32,
    schedule: Vec<(u32, u8)>,
    held: HashMap<usize, Vec<(usize, bool)>>,
    /// per thread: is it parked waiting for a WRITE lock (std's RwLock makes new readers wait behind a parked writer)
    parked_writer: Vec<bool>,
    info: RunInfo,
    done: bool,
    max_points: u32,
    on_fatal: Option<fn(&Fatal, &RunInfo)>,
}

static CORE: Mutex<Option<Core>> = Mutex::new(None);
static CV: Condvar = Condvar::new();

thread_local! {
    static TID: Cell<Option<usize>> = Cell::new(None);
}

fn managed() -> bool {
    TID.with(|t| t.get().is_some())
}

fn me() -> usize {
    TID.with(|t| t.get().unwrap())
}

fn lock_core() -> std::sync::MutexGuard<'static, Option<Core>> {
    CORE.lock().unwrap_or_else(|e| e.into_inner())
}

fn fatal(core: &mut Core, f: Fatal) -> ! {
    let info = core.info.clone();
    let cb = core.on_fatal;
    if let Some(cb) = cb {
        cb(&f, &info);
    }
    eprintln!("[sched] fatal verdict without handler: {:?}", f);
    std::process::exit(3);
}

/// pick the next runnable thread after `from` (round robin); None if nobody is runnable
fn next_runnable(core: &Core, from: usize) -> Option<usize> {
    let n = core.status.len();
    for d in 1..=n {
        let t = (from + d) % n;
        if core.status[t] == Status::Runnable {
            return Some(t);
        }
    }
    None
}

fn switch_to(mut g: std::sync::MutexGuard<'static, Option<Core>>, me: usize, next: usize) {
    {
        let core = g.as_mut().unwrap();
        core.current = next;
    }
    CV.notify_all();
    loop {
        {
            let core = g.as_ref().unwrap();
            if core.current == me && core.status[me] == Status::Runnable {
                return;
            }
        }
        g = CV.wait(g).unwrap_or_else(|e| e.into_inner());
    }
}

fn record(core: &mut Core, op: Op, addr: usize) {
    if core.info.tail.len() >= 48 {
        core.info.tail.remove(0);
    }
    core.info.tail.push(TraceEv { tid: core.current, op: format!("{:?}", op), addr });
}

fn hook_point(op: Op, addr: usize) {
    let me = me();
    let mut g = lock_core();
    let core = g.as_mut().unwrap();
    debug_assert_eq!(core.current, me);
    let idx = core.point_idx;
    core.point_idx += 1;
    core.info.points = core.point_idx;
    record(core, op, addr);
    if core.point_idx > core.max_points {
        let f = Fatal::StepBound { points: core.point_idx };
        fatal(core, f);
    }
    let others: Vec<usize> = (0..core.status.len()).filter(|t| *t != me && core.status[*t] == Status::Runnable).collect();
    core.info.alts.push(others.len().min(255) as u8);
    let mut next = me;
    if matches!(op, Op::Yield | Op::Sleep) {
        // fair yield: somebody else runs if anybody can
        if let Some(t) = next_runnable(core, me) {
            next = t;
        }
    } else if let Some(pos) = core.schedule.iter().position(|(p, _)| *p == idx) {
        let c = core.schedule[pos].1 as usize;
        if !others.is_empty() {
            next = others[c % others.len()];
            core.info.effective_preemptions += 1;
            let holding = core.held.values().filter(|v| v.iter().any(|(t, _)| *t == me)).count();
            if holding > 0 {
                core.info.preempted_holding_lock += 1;
            }
        }
    }
    if next != me {
        switch_to(g, me, next);
        g = lock_core();
    }
    // Writer preference of std's RwLock: while the lock is held and a writer is parked on it, a NEW read request waits
    // too - also one made by a thread that already holds a read lock (the recursive read the std documentation warns
    // about). Once the lock has been released reader and writer race again, as in std.
    if matches!(op, Op::RwRead) {
        loop {
            let core = g.as_mut().unwrap();
            let held_now = core.held.get(&addr).map(|v| !v.is_empty()).unwrap_or(false);
            let writer_parked = (0..core.status.len()).any(|t| t != me && core.parked_writer[t] && core.status[t] == Status::Blocked(addr));
            if !(held_now && writer_parked) {
                break;
            }
            core.status[me] = Status::Blocked(addr);
            match next_runnable(core, me) {
                Some(t) => {
                    switch_to(g, me, t);
                    g = lock_core();
                }
                None => {
                    let waiting: Vec<(usize, usize)> = core
                        .status
                        .iter()
                        .enumerate()
                        .filter_map(|(t, s)| if let Status::Blocked(a) = s { Some((t, *a)) } else { None })
                        .collect();
                    let held: Vec<(usize, Vec<(usize, bool)>)> = core.held.iter().filter(|(_, v)| !v.is_empty()).map(|(a, v)| (*a, v.clone())).collect();
                    let f = Fatal::Deadlock { waiting, held, at_point: core.point_idx };
                    fatal(core, f);
                }
            }
        }
    }
}

fn hook_blocked(op: Op, addr: usize) {
    let me = me();
    let mut g = lock_core();
    let core = g.as_mut().unwrap();
    record(core, op, addr);
    // a failed acquisition of a lock nobody holds any more (released in between) is just a retry
    let still_held = core.held.get(&addr).map(|v| !v.is_empty()).unwrap_or(false);
    if !still_held {
        return;
    }
    core.status[me] = Status::Blocked(addr);
    core.parked_writer[me] = matches!(op, Op::RwWrite);
    match next_runnable(core, me) {
        Some(t) => switch_to(g, me, t),
        None => {
            let waiting: Vec<(usize, usize)> = core
                .status
                .iter()
                .enumerate()
                .filter_map(|(t, s)| if let Status::Blocked(a) = s { Some((t, *a)) } else { None })
                .collect();
            let held: Vec<(usize, Vec<(usize, bool)>)> = core.held.iter().filter(|(_, v)| !v.is_empty()).map(|(a, v)| (*a, v.clone())).collect();
            let f = Fatal::Deadlock { waiting, held, at_point: core.point_idx };
            fatal(core, f);
        }
    }
}

fn hook_acquired(_op: Op, addr: usize, exclusive: bool) {
    let me = me();
    let mut g = lock_core();
    let core = g.as_mut().unwrap();
    core.held.entry(addr).or_default().push((me, exclusive));
    let mine = core.held.values().filter(|v| v.iter().any(|(t, _)| *t == me)).count();
    if mine > core.info.max_locks_held_by_one_thread {
        core.info.max_locks_held_by_one_thread = mine;
    }
}

fn hook_released(_op: Op, addr: usize) {
    let me = me();
    let mut g = lock_core();
    let core = g.as_mut().unwrap();
    if let Some(v) = core.held.get_mut(&addr) {
        if let Some(pos) = v.iter().position(|(t, _)| *t == me) {
            v.remove(pos);
        }
    }
    for (t, s) in core.status.iter_mut().enumerate() {
        if *s == Status::Blocked(addr) {
            *s = Status::Runnable;
            core.parked_writer[t] = false;
        }
    }
}

static HOOKS: Hooks = Hooks { point: hook_point, blocked: hook_blocked, acquired: hook_acquired, released: hook_released, managed };

fn finish(me: usize, panic: Option<String>) {
    let mut g = lock_core();
    let core = g.as_mut().unwrap();
    core.status[me] = Status::Finished;
    if let Some(p) = panic {
        core.info.panics.push((me, p));
    }
    // locks still recorded as held by a finished thread were released by unwinding / guard drops
    match next_runnable(core, me) {
        Some(t) => {
            core.current = t;
            CV.notify_all();
        }
        None => {
            if core.status.iter().all(|s| *s == Status::Finished) {
                core.done = true;
                CV.notify_all();
            } else {
                let waiting: Vec<(usize, usize)> = core
                    .status
                    .iter()
                    .enumerate()
                    .filter_map(|(t, s)| if let Status::Blocked(a) = s { Some((t, *a)) } else { None })
                    .collect();
                let held: Vec<(usize, Vec<(usize, bool)>)> = core.held.iter().filter(|(_, v)| !v.is_empty()).map(|(a, v)| (*a, v.clone())).collect();
                let f = Fatal::Deadlock { waiting, held, at_point: core.point_idx };
                fatal(core, f);
            }
        }
    }
}

pub type Body = Box<dyn FnOnce() + Send + 'static>;

/// Run the bodies as scenario threads under `schedule`. Returns when all have finished.
/// A deadlock or an exceeded step bound never returns: `on_fatal` is called (it must end the process).
pub fn run(bodies: Vec<Body>, schedule: &[(u32, u8)], max_points: u32, on_fatal: fn(&Fatal, &RunInfo)) -> RunInfo {
    let n = bodies.len();
    {
        let mut g = lock_core();
        *g = Some(Core {
            status: vec![Status::Runnable; n],
            current: usize::MAX, // nobody yet
            point_idx: 0,
            schedule: schedule.to_vec(),
            held: HashMap::new(),
            parked_writer: vec![false; n],
            info: RunInfo::default(),
            done: n == 0,
            max_points,
            on_fatal: Some(on_fatal),
        });
    }
    hooks::install(&HOOKS);
    let started = Arc::new((Mutex::new(0usize), Condvar::new()));
    let mut handles = Vec::new();
    for (tid, body) in bodies.into_iter().enumerate() {
        let started = started.clone();
        handles.push(std::thread::spawn(move || {
            TID.with(|t| t.set(Some(tid)));
            {
                let (m, cv) = &*started;
                *m.lock().unwrap() += 1;
                cv.notify_all();
            }
            // wait for the token
            {
                let mut g = lock_core();
                loop {
                    if g.as_ref().unwrap().current == tid {
                        break;
                    }
                    g = CV.wait(g).unwrap_or_else(|e| e.into_inner());
                }
            }
            let r = std::panic::catch_unwind(std::panic::AssertUnwindSafe(body));
            let msg = r.err().map(|e| {
                if let Some(s) = e.downcast_ref::<&str>() {
                    s.to_string()
                } else if let Some(s) = e.downcast_ref::<String>() {
                    s.clone()
                } else {
                    "<panic>".to_string()
                }
            });
            let msg = msg.map(|m| match crate::engine::shard::take_last_panic() {
                Some(full) => full,
                None => m,
            });
            finish(tid, msg);
            TID.with(|t| t.set(None));
        }));
    }
    {
        let (m, cv) = &*started;
        let mut c = m.lock().unwrap();
        while *c < n {
            c = cv.wait(c).unwrap();
        }
    }
    {
        let mut g = lock_core();
        if n > 0 {
            g.as_mut().unwrap().current = 0;
        }
        CV.notify_all();
        loop {
            if g.as_ref().unwrap().done {
                break;
            }
            g = CV.wait(g).unwrap_or_else(|e| e.into_inner());
        }
    }
    for h in handles {
        let _ = h.join();
    }
    hooks::uninstall();
    let mut g = lock_core();
    let core = g.take().unwrap();
    core.info
}

/// Enumerate every schedule with at most `k` preemptions (depth-first, by re-execution).
/// `exec` runs the scenario under a schedule and returns its RunInfo, or Err to stop.
pub fn enumerate_bounded<E>(k: usize, max_runs: u64, mut exec: impl FnMut(&[(u32, u8)]) -> Result<RunInfo, E>) -> Result<(u64, bool), E> {
    let mut runs = 0u64;
    let mut complete = true;
    // stack of (schedule, info of its run)
    let base = exec(&[])?;
    runs += 1;
    let mut frontier: Vec<(Vec<(u32, u8)>, RunInfo)> = vec![(vec![], base)];
    for _depth in 0..k {
        let mut next = Vec::new();
        for (sched, info) in &frontier {
            let start = sched.last().map(|(p, _)| *p + 1).unwrap_or(0);
            for p in start..info.points {
                let alts = info.alts.get(p as usize).cloned().unwrap_or(0);
                for c in 0..alts {
                    if runs >= max_runs {
                        complete = false;
                        return Ok((runs, complete));
                    }
                    let mut s2 = sched.clone();
                    s2.push((p, c));
                    let i2 = exec(&s2)?;
                    runs += 1;
                    next.push((s2, i2));
                }
            }
        }
        frontier = next;
    }
    Ok((runs, complete))
}
