//! Fatal-verdict plumbing: a deadlock cannot be unwound (parked threads would re-enter the
//! scheduler from Drop impls), so the process reports the verdict and exits at once.
use super::{Fatal, RunInfo};
use serde_json::Value;
use std::sync::Mutex;

pub struct FatalCtx {
    pub property: &'static str,
    pub bytes_hex: String,
    pub decoded: Value,
    /// signature prefix, e.g. "C15|breaker|load_rules+append_rule"
    pub key_prefix: String,
    pub schedule: Vec<(u32, u8)>,
}

static CTX: Mutex<Option<FatalCtx>> = Mutex::new(None);

pub fn set(ctx: FatalCtx) {
    *CTX.lock().unwrap_or_else(|e| e.into_inner()) = Some(ctx);
}

pub fn on_fatal(f: &Fatal, info: &RunInfo) {
    let g = CTX.lock().unwrap_or_else(|e| e.into_inner());
    let (prop, bytes, decoded, key_prefix, schedule) = match g.as_ref() {
        Some(c) => (c.property, c.bytes_hex.clone(), c.decoded.clone(), c.key_prefix.clone(), c.schedule.clone()),
        None => ("?", String::new(), Value::Null, "?".to_string(), vec![]),
    };
    let (clause, detail) = match f {
        Fatal::Deadlock { waiting, held, at_point } => (
            "deadlock".to_string(),
            format!(
                "all unfinished threads are blocked at schedule point {} under schedule {:?}: waiting (thread, lock) {:x?}; locks held (lock, [(thread, exclusive)]) {:x?}; last operations: {}",
                at_point,
                schedule,
                waiting,
                held,
                info.tail.iter().rev().take(16).rev().map(|e| format!("t{}:{}@{:x}", e.tid, e.op, e.addr & 0xffffff)).collect::<Vec<_>>().join(" ")
            ),
        ),
        Fatal::StepBound { points } => ("inconclusive-step-bound".to_string(), format!("{} schedule points without completion", points)),
    };
    let failure = serde_json::json!({
        "clause": clause,
        "key": format!("{}|{}", key_prefix, clause),
        "detail": detail,
        "decoded": decoded,
    });
    // both forms: the shard's parent looks for FATAL-FAILURE, a single-case child's parent for CASE-RESULT
    println!("FATAL-FAILURE {}", serde_json::json!({"property": prop, "bytes_hex": bytes, "failure": failure}));
    println!("CASE-RESULT {}", serde_json::json!({"pass": false, "failure": failure}));
    use std::io::Write;
    let _ = std::io::stdout().flush();
    std::process::exit(0);
}
