//! Harness-side helpers: virtual clock control, state reset, naming.
use sentinel_core::utils::verif_clock as vc;
use sentinel_core::{circuitbreaker, flow, hotspot, isolation, stat, system};
use std::sync::atomic::{AtomicU64, Ordering};

/// 2024-01-01T00:00:00Z in ms
pub const EPOCH_MS: u64 = 1_704_067_200_000;

pub mod clock {
    use super::*;
    pub fn init() {
        if !vc::is_enabled() {
            vc::enable(EPOCH_MS * 1_000_000);
        }
    }
    pub fn now_ns() -> u64 {
        vc::raw_nanos()
    }
    pub fn now_ms() -> u64 {
        vc::raw_nanos() / 1_000_000
    }
    pub fn set_ms(ms: u64) {
        vc::set_nanos(ms * 1_000_000)
    }
    pub fn set_ns(ns: u64) {
        vc::set_nanos(ns)
    }
    pub fn advance_ms(ms: u64) {
        vc::advance_nanos(ms * 1_000_000);
    }
    pub fn advance_ns(ns: u64) {
        vc::advance_nanos(ns);
    }
    /// Start a new case: jump at least 12 s ahead (one full global window plus slack) and land
    /// on a multiple of 10 s, so that bucket phases are a function of the case only.
    pub fn new_case_epoch() -> u64 {
        let now = now_ms();
        let next = (now / 10_000 + 3) * 10_000;
        set_ms(next);
        vc::reset_sleep_stats();
        next
    }
    pub fn sleep_stats() -> (u64, u64, u64) {
        vc::sleep_stats()
    }
    pub fn reset_sleep_stats() {
        vc::reset_sleep_stats()
    }
}

static NAME_CTR: AtomicU64 = AtomicU64::new(0);
static SHARD_TAG: AtomicU64 = AtomicU64::new(0);

pub fn set_shard_tag(t: u64) {
    SHARD_TAG.store(t, Ordering::SeqCst);
}

/// process-unique resource name
pub fn fresh_name(tag: &str) -> String {
    let n = NAME_CTR.fetch_add(1, Ordering::SeqCst);
    format!("{}-s{}-{}", tag, SHARD_TAG.load(Ordering::SeqCst), n)
}

/// Clear all rule managers, listeners and the resource-node map.
pub fn reset_all() {
    flow::clear_rules();
    isolation::clear_rules();
    hotspot::clear_rules();
    circuitbreaker::clear_rules();
    system::clear_rules();
    circuitbreaker::clear_state_change_listeners();
    stat::reset_resource_map();
}

pub fn fnv64(s: &[u8]) -> u64 {
    let mut h: u64 = 0xcbf29ce484222325;
    for b in s {
        h ^= *b as u64;
        h = h.wrapping_mul(0x100000001b3);
    }
    h
}

pub fn hex(b: &[u8]) -> String {
    let mut s = String::with_capacity(b.len() * 2);
    for x in b {
        s.push_str(&format!("{:02x}", x));
    }
    s
}

pub fn unhex(s: &str) -> Vec<u8> {
    let s = s.trim();
    (0..s.len() / 2)
        .map(|i| u8::from_str_radix(&s[2 * i..2 * i + 2], 16).unwrap_or(0))
        .collect()
}
