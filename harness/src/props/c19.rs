//! C19 — metric log: written items can be searched back; a torn tail loses one line.
use crate::engine::*;
use crate::props::common::digest_of;
use crate::util::{self, clock};
use sentinel_core::base::{MetricItem, VerifMetricFields};
use sentinel_core::config::{self, ConfigEntity};
use sentinel_core::log::metric::verif_journal::{self, Op as JOp};
use sentinel_core::log::metric::{DefaultMetricLogWriter, DefaultMetricSearcher, MetricLogWriter, MetricSearcher};
use serde::Serialize;
use std::collections::BTreeMap;

pub struct C19;

pub const RES: [&str; 3] = ["alpha", "beta|x", "gamma"];
const APP: &str = "c19app";
const BASE: &str = "c19app-metrics.log";

#[derive(Debug, Clone, Serialize)]
pub struct Case {
    /// 0: ordinary day, creation 10:00:00 + phase; 1: creation a few seconds before UTC midnight
    pub near_midnight: bool,
    pub phase_ms: u64,
    /// per written second: (gap in seconds since the previous one (>= 1), resources of its items)
    pub seconds: Vec<(u64, Vec<usize>)>,
    pub max_size: u64,
    pub max_files: usize,
    /// one searcher reused for all queries instead of a fresh one per query
    pub reuse_searcher: bool,
    /// explore crash prefixes
    pub crash: bool,
    /// seeds the shuffled query order of a reused searcher
    pub order_seed: u64,
}

pub fn decode(u: &mut Bytes) -> Case {
    let near_midnight = u.choice(4) == 3;
    let phase_ms = [0u64, 1, 500, 999][u.choice(4)];
    let n = 1 + u.choice(8);
    let mut seconds = Vec::new();
    for _ in 0..n {
        let gap = match u.choice(8) {
            0..=4 => 1,
            5 => 2,
            6 => 3 + u.choice(5) as u64,
            _ => if near_midnight { 86_400 } else { 61 },
        };
        let k = 1 + u.choice(4);
        seconds.push((gap, (0..k).map(|_| u.choice(3)).collect()));
    }
    let max_size = [100_000u64, 1, 120, 250, 400][u.choice(5)];
    let max_files = 1 + u.choice(4);
    let reuse_searcher = u.choice(4) == 3;
    let crash = u.choice(3) != 0;
    let order_seed = u.tail_u8() as u64 * 256 + u.tail_u8() as u64;
    // an eighth of the histories is long enough for the file number of one day to pass 9 (.9 -> .10) when every second rolls
    let extra = [0usize, 0, 0, 0, 0, 0, 0, 6][u.tail_choice(8)];
    for _ in 0..extra {
        seconds.push((1, vec![u.tail_choice(3)]));
    }
    Case { near_midnight, phase_ms, seconds, max_size, max_files, reuse_searcher, crash, order_seed }
}

#[derive(Debug, Clone, PartialEq)]
struct Item {
    sec: u64,
    f: VerifMetricFields,
}

struct History {
    dir: String,
    journal: Vec<JOp>,
    /// every item in write order with the (journal op index) of its line append
    items: Vec<(Item, usize)>,
    /// per item: journal op index of the last index append of its second (None = no index entry was issued)
    idx_ops: Vec<Option<usize>>,
}

fn scratch(tag: &str) -> String {
    let d = format!("/verif/out/c19-{}/{}/", std::process::id(), util::fresh_name(tag));
    let _ = std::fs::create_dir_all(&d);
    d
}

fn set_config(dir: &str) {
    let mut e = ConfigEntity::new();
    e.config.app.app_name = APP.into();
    e.config.log.metric.dir = dir.to_string();
    e.config.log.metric.use_pid = false;
    e.config.log.metric.flush_interval_sec = 0;
    e.config.use_cache_time = false;
    config::reset_global_config(e);
}

/// run the writer over the history, under the virtual clock, journalling every file operation
fn write_history(case: &Case) -> Result<History, String> {
    let dir = scratch("w");
    set_config(&dir);
    // 2024-03-05T10:00:00Z or 2024-03-05T23:59:57Z
    let day = 1_709_596_800_000u64; // 2024-03-05T00:00:00Z
    let created = if case.near_midnight { day + 86_400_000 - 3_000 } else { day + 36_000_000 } + case.phase_ms;
    clock::set_ms(created);
    verif_journal::start();
    let mut w = DefaultMetricLogWriter::new(case.max_size, case.max_files).map_err(|e| format!("writer creation failed: {}", e))?;
    let mut sec = created / 1000;
    let mut items: Vec<(Item, usize)> = Vec::new();
    let mut idx_ops: Vec<Option<usize>> = Vec::new();
    let mut counter = 1u64;
    let mut journal_so_far = 0usize;
    let mut all_journal: Vec<JOp> = Vec::new();
    for (gap, rs) in &case.seconds {
        sec += gap;
        let ts = sec * 1000;
        clock::set_ms(ts + 5);
        let mut batch: Vec<MetricItem> = Vec::new();
        let mut fields: Vec<VerifMetricFields> = Vec::new();
        for r in rs {
            counter += 1;
            let f = VerifMetricFields {
                resource: RES[*r].to_string(),
                resource_type: (counter % 7) as u8,
                timestamp: 0,
                pass_qps: counter,
                block_qps: counter * 3 % 11,
                complete_qps: counter / 2,
                error_qps: counter % 2,
                avg_rt: counter * 7,
                occupied_pass_qps: 0,
                concurrency: (counter % 5) as u32,
            };
            batch.push(MetricItem::verif_new(&f));
            fields.push(f);
        }
        w.write(ts, &mut batch).map_err(|e| format!("write failed: {}", e))?;
        // attribute the line appends of this call to the items, in order
        let chunk = verif_journal::take();
        verif_journal::start();
        let mut k = 0usize;
        let base_j = all_journal.len();
        let last_idx_append = chunk.iter().enumerate().filter(|(_, o)| matches!(o, JOp::Append(true, _))).map(|(j, _)| base_j + j).last();
        for (j, op) in chunk.iter().enumerate() {
            if let JOp::Append(false, _) = op {
                if k < fields.len() {
                    let mut f = fields[k].clone();
                    f.timestamp = ts;
                    f.resource = f.resource.replace('|', "_");
                    items.push((Item { sec, f }, base_j + j));
                    idx_ops.push(last_idx_append);
                    k += 1;
                }
            }
        }
        if k != fields.len() {
            return Err(format!("write() of {} items issued {} line appends", fields.len(), k));
        }
        all_journal.extend(chunk);
        journal_so_far = all_journal.len();
    }
    let tail = verif_journal::take();
    all_journal.extend(tail);
    drop(w);
    let _ = journal_so_far;
    Ok(History { dir, journal: all_journal, items, idx_ops })
}

/// Materialise the first `ops` journal operations (and `bytes` bytes of operation `ops`, if it is an
/// append) into a fresh directory. Returns (dir, which item line appends are complete & surviving,
/// whether the cut op is a torn line).
fn materialise(h: &History, ops: usize, bytes: usize) -> (String, Vec<bool>, Vec<bool>) {
    let dir = scratch("m");
    let mut files: BTreeMap<String, Vec<u8>> = BTreeMap::new();
    let mut cur_log = String::new();
    let mut cur_idx = String::new();
    let mut line_file: BTreeMap<usize, String> = BTreeMap::new(); // journal index of a complete line -> file
    let mut idx_file: BTreeMap<usize, String> = BTreeMap::new(); // journal index of a complete index append -> index file
    let rel = |p: &str| -> String { p.strip_prefix(h.dir.as_str()).unwrap_or(p).to_string() };
    for (j, op) in h.journal.iter().enumerate() {
        if j > ops || (j == ops && bytes == 0) {
            break;
        }
        let partial = j == ops;
        match op {
            JOp::Create(p) => {
                if partial {
                    break;
                }
                let r = rel(p);
                files.insert(r.clone(), Vec::new());
                if r.ends_with(".idx") { cur_idx = r } else { cur_log = r }
            }
            JOp::Remove(p) => {
                if partial {
                    break;
                }
                files.remove(&rel(p));
            }
            JOp::Append(is_idx, b) => {
                let target = if *is_idx { &cur_idx } else { &cur_log };
                let n = if partial { bytes.min(b.len()) } else { b.len() };
                if let Some(f) = files.get_mut(target) {
                    f.extend_from_slice(&b[..n]);
                }
                if !*is_idx && n == b.len() {
                    line_file.insert(j, target.clone());
                }
                if *is_idx && n == b.len() {
                    idx_file.insert(j, target.clone());
                }
            }
        }
    }
    for (name, content) in &files {
        let _ = std::fs::write(format!("{}{}", dir, name), content);
    }
    // an item must be found iff its line and its second's index entry are complete in surviving files
    let complete: Vec<bool> = h
        .items
        .iter()
        .zip(h.idx_ops.iter())
        .map(|((_, j), io)| {
            let line_ok = line_file.get(j).map(|f| files.contains_key(f)).unwrap_or(false);
            let idx_ok = match io {
                None => true,
                Some(ij) => idx_file.get(ij).map(|f| files.contains_key(f)).unwrap_or(false),
            };
            line_ok && idx_ok
        })
        .collect();
    let line_complete: Vec<bool> = h.items.iter().map(|(_, j)| line_file.get(j).map(|f| files.contains_key(f)).unwrap_or(false)).collect();
    (dir, complete, line_complete)
}

fn to_item(m: &MetricItem) -> Item {
    let f = m.verif_fields();
    Item { sec: f.timestamp / 1000, f }
}

/// is `want` a subsequence of `got`, and how many of the other elements of `got` are not items whose
/// line was completely written (`written`): those can only come from misreading a torn line
fn extras_if_subsequence(got: &[Item], want: &[Item], written: &[Item]) -> Option<usize> {
    let mut i = 0;
    let mut bogus = 0;
    for g in got {
        if i < want.len() && *g == want[i] {
            i += 1;
        } else if !written.contains(g) {
            bogus += 1;
        }
    }
    if i == want.len() { Some(bogus) } else { None }
}

type Judged = Result<(), (String, String, String)>; // clause, key suffix, detail

#[derive(Clone)]
enum Query {
    /// begin second, end second, resource, index of the begin in the list of begins
    ByTime(u64, u64, &'static str, usize),
    /// begin second, max lines, index of the begin
    MaxLines(u64, usize, usize),
}

/// all queries against one directory state; `w` = items that must be found (complete & surviving), in write order.
/// `reuse` = one searcher serves every query: then the whole list is asked three times - begins ascending, descending
/// and in an order shuffled from `order_seed` - because what a reused searcher remembers depends on the order.
fn judge_dir(dir: &str, w: &[Item], written: &[Item], crashed: bool, reuse: bool, files_with_data: usize, max_lines_cap: usize, order_seed: u64) -> (Judged, u64) {
    let mut queries = 0u64;
    let mk = || DefaultMetricSearcher::new(dir.to_string(), BASE.to_string());
    let shared = match mk() {
        Ok(s) => s,
        Err(e) => return (Err(("searcher-creation-failed".into(), "searcher".into(), e.to_string())), 0),
    };
    let mut secs: Vec<u64> = w.iter().map(|i| i.sec).collect();
    secs.dedup();
    if secs.is_empty() {
        secs.push(1_709_632_800);
    }
    let mut begins: Vec<u64> = secs.clone();
    begins.insert(0, secs[0] - 1);
    let shape = if files_with_data >= 2 { "files>=2" } else { "single-file" };
    let mut list: Vec<Query> = Vec::new();
    for (bi, b) in begins.iter().enumerate() {
        let mut ends: Vec<u64> = secs.iter().cloned().filter(|e| e >= b).collect();
        ends.push(secs[secs.len() - 1] + 5);
        for e in ends {
            for r in ["", "alpha", "beta_x", "gamma"] {
                list.push(Query::ByTime(*b, e, r, bi));
            }
        }
        let avail = w.iter().filter(|i| i.sec >= *b).count();
        for max_lines in 1..=(2 * avail.max(1)).min(max_lines_cap) {
            list.push(Query::MaxLines(*b, max_lines, bi));
        }
    }
    let mut passes: Vec<(&'static str, Vec<Query>)> = vec![("ascending", list.clone())];
    if reuse {
        let mut desc = list.clone();
        desc.reverse();
        passes.push(("descending", desc));
        let mut sh = list.clone();
        let mut x = order_seed.wrapping_mul(0x9E37_79B9_7F4A_7C15) | 1;
        for i in (1..sh.len()).rev() {
            x ^= x << 13;
            x ^= x >> 7;
            x ^= x << 17;
            sh.swap(i, (x % (i as u64 + 1)) as usize);
        }
        passes.push(("shuffled", sh));
    }
    let mut prev_desc = String::from("none");
    for (pass_name, qs) in passes {
        for q in qs {
            queries += 1;
            let fresh;
            let s = if reuse { &shared } else { fresh = mk().unwrap(); &fresh };
            let order_note = if reuse { format!(" [reused searcher, {} pass, previous query: {}]", pass_name, prev_desc) } else { String::new() };
            match q {
                Query::ByTime(b, e, r, bi) => {
                    if reuse { prev_desc = format!("by-time({}, {}, {:?})", b, e, r); }
                    let got = match s.find_by_time_and_resource(b * 1000 + 250, e * 1000 + 750, r) {
                        Ok(v) => v.iter().map(to_item).collect::<Vec<_>>(),
                        Err(err) => {
                            if crashed {
                                continue; // an error is not a panic; the containment clause is judged on Ok results
                            }
                            return (Err(("search-failed".into(), format!("find_by_time|{}", shape), format!("find_by_time_and_resource({}, {}, {:?}) failed: {}{}", b, e, r, err, order_note))), queries);
                        }
                    };
                    let want: Vec<Item> = w.iter().filter(|i| i.sec >= b && i.sec <= e && (r.is_empty() || i.f.resource == r)).cloned().collect();
                    let begin_class = if bi == 0 { "begin-before-first" } else if bi == 1 { "begin-at-first-second" } else { "begin-at-later-second" };
                    let key = format!("find_by_time|{}|{}|{}", if reuse { "reused-searcher" } else { "fresh-searcher" }, shape, begin_class);
                    if !crashed {
                        if got != want {
                            return (Err(("by-time-result-wrong".into(), key, format!("find_by_time_and_resource(begin sec {}, end sec {}, {:?}) returned {} items, expected {} (written seconds {:?}){};\n got {:?}\n want {:?}", b, e, r, got.len(), want.len(), secs, order_note, got.iter().map(|i| (i.sec, i.f.resource.clone(), i.f.pass_qps)).collect::<Vec<_>>(), want.iter().map(|i| (i.sec, i.f.resource.clone(), i.f.pass_qps)).collect::<Vec<_>>()))), queries);
                        }
                    } else {
                        match extras_if_subsequence(&got, &want, written) {
                            Some(x) if x <= 1 => {}
                            other => {
                                return (Err(("crash-prefix-lost-items".into(), format!("crash|{}", key), format!("after the crash find_by_time_and_resource(begin sec {}, end sec {}, {:?}) returned {} items; the {} completely written ones must all be there in order with at most one torn extra ({:?})", b, e, r, got.len(), want.len(), other))), queries);
                            }
                        }
                    }
                }
                Query::MaxLines(b, max_lines, bi) => {
                    if reuse { prev_desc = format!("max-lines({}, {})", b, max_lines); }
                    let avail: Vec<Item> = w.iter().filter(|i| i.sec >= b).cloned().collect();
                    let got = match s.find_from_time_with_max_lines(b * 1000 + 250, max_lines) {
                        Ok(v) => v.iter().map(to_item).collect::<Vec<_>>(),
                        Err(err) => {
                            if crashed {
                                continue;
                            }
                            return (Err(("search-failed".into(), format!("find_from_time|{}", shape), format!("find_from_time_with_max_lines({}, {}) failed: {}{}", b, max_lines, err, order_note))), queries);
                        }
                    };
                    let begin_class = if bi == 0 { "begin-before-first" } else if bi == 1 { "begin-at-first-second" } else { "begin-at-later-second" };
                    let key = format!("find_from_time|{}|{}|{}", if reuse { "reused-searcher" } else { "fresh-searcher" }, shape, begin_class);
                    let need = max_lines.min(avail.len());
                    if !crashed {
                        // a prefix, in write order, of the available items; at least `need` long; surplus shares the last counted second
                        let is_prefix = got.len() <= avail.len() && got[..] == avail[..got.len()];
                        let long_enough = got.len() >= need;
                        let surplus_ok = got.len() <= need || need == 0 || got[need..].iter().all(|i| i.sec == avail[need - 1].sec);
                        if !(is_prefix && long_enough && surplus_ok) {
                            return (Err(("max-lines-result-wrong".into(), key, format!("find_from_time_with_max_lines(begin sec {}, {}) returned {} items (prefix {}, long enough {}, surplus ok {}), {} available{}: got {:?}", b, max_lines, got.len(), is_prefix, long_enough, surplus_ok, avail.len(), order_note, got.iter().map(|i| (i.sec, i.f.resource.clone(), i.f.pass_qps)).collect::<Vec<_>>()))), queries);
                        }
                    } else {
                        // the first `need` completely written items must be there, in order, with at most one torn extra before the limit
                        let want = &avail[..need];
                        let ok = extras_if_subsequence(&got, want, written).map(|x| x <= 1).unwrap_or(false);
                        if !ok {
                            return (Err(("crash-prefix-lost-items".into(), format!("crash|{}", key), format!("after the crash find_from_time_with_max_lines(begin sec {}, {}) returned {} items that do not contain the first {} completely written ones in order", b, max_lines, got.len(), need))), queries);
                        }
                    }
                }
            }
        }
    }
    (Ok(()), queries)
}

impl Property for C19 {
    fn id(&self) -> &'static str {
        "C19"
    }
    fn level(&self) -> &'static str {
        "fault_enumeration"
    }
    fn budget(&self, tier: Tier) -> Budget {
        match tier {
            Tier::Quick => Budget { cases: 20, shards: 16, min_len: 12, max_len: 60 },
            Tier::Thorough => Budget { cases: 400, shards: 16, min_len: 12, max_len: 60 },
        }
    }
    fn fuzz_targets(&self) -> Vec<(&'static str, u64, usize)> {
        vec![("search_files", 600_000, 600)]
    }
    fn rule(&self) -> String {
        "bytes -> write history (writer created on an ordinary day or 3 s before UTC midnight, 1-8 (an eighth of the histories: 7-14, so that file numbers pass 9) written seconds with gaps 1..7 s / 61 s / a day, 1-4 items per second over 3 resources incl. one whose name contains the separator, single_file_max_size in {1,120,250,400,100000}, max_file_count 1..4), fresh searcher per query or one reused (then the whole query list is asked three times: begins ascending, descending and in a generated shuffled order, since what a reused searcher caches depends on the order); queries are enumerated exhaustively per history: every (begin, end, resource | \"\") over the written seconds (plus begin one second earlier, end beyond the last) and every (begin, max_lines 1..2*items); crash points = prefixes of the journalled byte stream the writer issued (file creations/removals, index-entry bytes, line bytes in program order): every operation boundary, every interior byte of every index entry and sampled (quick: 24 per history, thorough: all) interior line bytes; oracle: physical placement and removals from the journal (retention may only remove the oldest files and must leave min(created, max_file_count) of them), semantics from the statement; non-trivial = history spans >= 2 files and (crash mode) some cut falls inside an index entry or a line; distinct = distinct decoded histories".into()
    }
    fn assumptions(&self) -> Vec<String> {
        vec![
            "hook: writer journal (sentinel_verif) is the ground truth for the order of file operations; MetricItem constructor; virtual clock; the (process-wide) configuration points the writer at a run-scoped scratch directory under /verif/out".into(),
            "one write() per second, every written second strictly after the creation second".into(),
            "crash states are exactly the prefixes of the journalled stream (no reordering by the OS, no independent truncation of one file)".into(),
            "after a crash a search may return Err (not a panic); containment is judged on Ok results".into(),
        ]
    }
    fn run(&self, bytes: &[u8], cfg: &RunCfg) -> Verdict {
        let mut u = Bytes::new(bytes);
        let case = decode(&mut u);
        let fail = |clause: String, key: String, detail: String| Verdict::Fail(Failure { clause, key: format!("C19|{}", key), detail, decoded: serde_json::to_value(&case).unwrap() });
        clock::new_case_epoch();
        let h = match write_history(&case) {
            Ok(h) => h,
            Err(e) => return fail("writer-failed".into(), "writer-failed".into(), e),
        };
        let all_items: Vec<Item> = h.items.iter().map(|(i, _)| i.clone()).collect();
        let creates = h.journal.iter().filter(|o| matches!(o, JOp::Create(p) if !p.ends_with(".idx"))).count();
        let removes = h.journal.iter().filter(|o| matches!(o, JOp::Remove(_))).count();
        // --- retention: only the oldest files may go, and no more of them than the file limit asks for (items in the
        // newest max_file_count files are "within the retention limit" and must stay findable)
        {
            let mut created: Vec<String> = Vec::new();
            let mut alive: Vec<String> = Vec::new();
            for op in h.journal.iter() {
                match op {
                    JOp::Create(p) if !p.ends_with(".idx") => {
                        if !created.contains(p) {
                            created.push(p.clone());
                        }
                        if !alive.contains(p) {
                            alive.push(p.clone());
                        }
                    }
                    JOp::Remove(p) if !p.ends_with(".idx") => {
                        // the file removed must be the oldest one alive
                        if alive.first() != Some(p) {
                            let _ = std::fs::remove_dir_all(&h.dir);
                            return fail("retention-removed-a-newer-file".into(), "retention|newer-file-removed".into(), format!("{} was removed while the older {:?} is still there (files alive, oldest first: {:?})", p, alive.first(), alive));
                        }
                        alive.remove(0);
                    }
                    _ => {}
                }
            }
            let must_keep = created.len().min(case.max_files);
            if alive.len() < must_keep {
                let _ = std::fs::remove_dir_all(&h.dir);
                return fail("retention-removed-too-much".into(), "retention|too-few-files-kept".into(), format!("{} log files were created, max_file_count is {}, but only {} are left: {:?}", created.len(), case.max_files, alive.len(), alive));
            }
        }
        // --- no crash: the final state
        let (dir, complete, _) = materialise(&h, h.journal.len(), 0);
        let survivors: Vec<Item> = all_items.iter().zip(complete.iter()).filter(|(_, c)| **c).map(|(i, _)| i.clone()).collect();
        let mut files_with_data: std::collections::BTreeSet<usize> = Default::default();
        {
            // number of distinct surviving files that hold items
            let mut cur = 0usize;
            for (j, op) in h.journal.iter().enumerate() {
                if let JOp::Create(p) = op {
                    if !p.ends_with(".idx") {
                        cur = j;
                    }
                }
                if h.items.iter().zip(complete.iter()).any(|((_, jj), c)| *jj == j && *c) {
                    files_with_data.insert(cur);
                }
            }
        }
        let mut total_queries = 0u64;
        let lines_cap = if cfg.tier == Tier::Quick { 12 } else { 40 };
        let (r, q) = judge_dir(&dir, &survivors, &survivors, false, case.reuse_searcher, files_with_data.len(), lines_cap, case.order_seed);
        total_queries += q;
        let _ = std::fs::remove_dir_all(&dir);
        if let Err((clause, key, detail)) = r {
            let _ = std::fs::remove_dir_all(&h.dir);
            return fail(clause, key, detail);
        }
        // the writer's own directory must agree with the journal replay
        {
            let (r2, q2) = judge_dir(&h.dir, &survivors, &survivors, false, false, files_with_data.len(), 3, 0);
            total_queries += q2;
            if let Err((clause, key, detail)) = r2 {
                let _ = std::fs::remove_dir_all(&h.dir);
                return fail(format!("journal-disagrees-with-disk|{}", clause), key, detail);
            }
        }
        // --- crash prefixes
        let mut cuts = 0u64;
        let mut torn_cuts = 0u64;
        if case.crash {
            let mut points: Vec<(usize, usize)> = Vec::new();
            let mut line_budget = if cfg.tier == Tier::Quick { 24 } else { usize::MAX };
            for (j, op) in h.journal.iter().enumerate() {
                points.push((j, 0)); // boundary before op j
                if let JOp::Append(is_idx, b) = op {
                    if *is_idx {
                        for k in 1..b.len() {
                            points.push((j, k));
                        }
                    } else {
                        let step = if line_budget == usize::MAX { 1 } else { (b.len() / 3).max(1) };
                        let mut k = 1;
                        while k < b.len() && line_budget > 0 {
                            points.push((j, k));
                            k += step;
                            if line_budget != usize::MAX {
                                line_budget -= 1;
                            }
                        }
                    }
                }
            }
            for (ops, bytes) in points {
                let (d, complete, line_complete) = materialise(&h, ops, bytes);
                let w: Vec<Item> = all_items.iter().zip(complete.iter()).filter(|(_, c)| **c).map(|(i, _)| i.clone()).collect();
                let written: Vec<Item> = all_items.iter().zip(line_complete.iter()).filter(|(_, c)| **c).map(|(i, _)| i.clone()).collect();
                cuts += 1;
                if bytes > 0 {
                    torn_cuts += 1;
                }
                let (r, q) = judge_dir(&d, &w, &written, true, false, 2, 6, 0);
                total_queries += q;
                let _ = std::fs::remove_dir_all(&d);
                if let Err((clause, key, detail)) = r {
                    let _ = std::fs::remove_dir_all(&h.dir);
                    return fail(clause, key, format!("cut at journal op {} byte {} ({:?}): {}", ops, bytes, h.journal.get(ops).map(|o| match o { JOp::Append(i, b) => format!("append idx={} len={}", i, b.len()), o => format!("{:?}", o) }), detail));
                }
            }
        }
        let _ = std::fs::remove_dir_all(&h.dir);
        let _ = std::fs::remove_dir(format!("/verif/out/c19-{}", std::process::id()));
        let mut classes = Vec::new();
        if creates >= 2 { classes.push("spans-2-or-more-files"); }
        if removes > 0 { classes.push("retention-removal"); }
        if case.near_midnight && case.seconds.iter().any(|(g, _)| *g >= 3) { classes.push("date-roll-over"); }
        if case.reuse_searcher { classes.push("reused-searcher"); }
        if case.crash { classes.push("crash-prefixes"); }
        Verdict::Pass(CaseReport {
            nontrivial: creates >= 2 && (!case.crash || torn_cuts > 0),
            classes,
            digest: digest_of(&case),
            decoded: if cfg.want_decoded { serde_json::to_value(&case).ok() } else { None },
            known_hits: vec![],
            counters: vec![("queries", total_queries), ("crash_cuts", cuts), ("torn_cuts", torn_cuts)],
        })
    }
}
