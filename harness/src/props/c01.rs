//! C01 — reject-type flow control admits a request iff it fits every rule's window.
use super::common::*;
use crate::engine::*;
use crate::fail;
use crate::model::buckets::window_sum;
use crate::util::{self, clock};
use sentinel_core::flow;
use serde::Serialize;
use std::sync::Arc;

pub struct C01;

#[derive(Debug, Clone, Serialize)]
pub struct RuleSpec {
    pub threshold: f64,
    pub stat_interval_ms: u32,
}

#[derive(Debug, Clone, Serialize)]
pub enum Step {
    /// advance the clock by `dt` ms, then request `batch` tokens
    Request { dt: u64, batch: u32 },
    /// advance, then exit the k-th open entry (if any)
    Exit { dt: u64, k: usize },
}

#[derive(Debug, Clone, Serialize)]
pub struct Case {
    pub phase_ms: u64,
    pub rules: Vec<RuleSpec>,
    pub steps: Vec<Step>,
}

pub const THRESHOLDS: [f64; 10] = [0.0, 0.5, 1.0, 1.5, 2.0, 3.0, 5.0, 7.25, 10.0, 20.0];
/// default window; reuse of the global ring; private ring
pub const INTERVALS: [u32; 20] = [
    0, 1000, // default metric
    500, 2000, 2500, 5000, 10000, // reuse the 20 x 500 ms global ring
    1, 250, 300, 700, 1500, 3000, 7000, 20000, 600000, // private ring
    // private although they divide the 10 s ring: their bucket is not a multiple of the ring's 500 ms bucket
    625, 1250, 125, 200,
];

/// (bucket length, interval) of the window a rule is judged on, derived from the documentation of
/// `stat_interval_ms` under the default configuration (global ring 20 x 500 ms, default metric 2 x 500 ms).
pub fn geometry(stat_interval_ms: u32) -> (u64, u64, &'static str) {
    let i = stat_interval_ms as u64;
    if i == 0 || i == 1000 {
        return (500, 1000, "default");
    }
    // sample count the manager derives: interval / 500 when it is a proper multiple below 10 s
    let sample = if i > 500 && i < 10_000 && i % 500 == 0 { i / 500 } else { 1 };
    let bucket = i / sample;
    let reusable = 10_000 % i == 0 && bucket % 500 == 0 && i % sample == 0;
    if reusable {
        // read window on the global ring: the ring's own 500 ms buckets tile the interval
        (500, i, "reuse")
    } else {
        (bucket, i, "private")
    }
}

pub fn decode(u: &mut Bytes) -> Case {
    let phase_ms = [0u64, 1, 250, 499, 500, 501, 999, 137][u.choice(8)];
    let nrules = 1 + u.choice(3);
    let mut rules = Vec::new();
    for _ in 0..nrules {
        let threshold = THRESHOLDS[u.choice(THRESHOLDS.len())];
        let stat_interval_ms = INTERVALS[u.choice(INTERVALS.len())];
        rules.push(RuleSpec { threshold, stat_interval_ms });
    }
    let nsteps = 5 + u.choice(76);
    let mut steps = Vec::new();
    // virtual "now" relative to case start, to resolve boundary-relative menu entries
    let mut rel: u64 = phase_ms;
    for _ in 0..nsteps {
        let g = geometry(rules[u.choice(rules.len())].stat_interval_ms);
        let (l, iv) = (g.0, g.1);
        let to_boundary = l - (rel % l);
        let dt = match u.choice(20) {
            0 | 1 | 2 => 0,
            3 => 1,
            4 => to_boundary,
            5 => to_boundary.saturating_sub(1),
            6 => to_boundary + 1,
            7 => 250,
            8 => 500,
            9 => 1000,
            10 => 1001,
            11 => iv,
            12 => iv + 1,
            13 => iv.saturating_sub(1),
            14 => (3 * iv).min(60_000),
            15 => 10_000,
            16 => 10_001,
            17 => 25_000,
            18 => u.range(0, 255) * 8,
            _ => u.range(0, 60),
        };
        rel += dt;
        if u.choice(5) == 4 {
            steps.push(Step::Exit { dt, k: u.choice(8) });
        } else {
            steps.push(Step::Request { dt, batch: u.choice(7) as u32 });
        }
    }
    Case { phase_ms, rules, steps }
}

impl Property for C01 {
    fn id(&self) -> &'static str {
        "C01"
    }
    fn budget(&self, tier: Tier) -> Budget {
        match tier {
            Tier::Quick => Budget { cases: 10_000, shards: 16, min_len: 24, max_len: 260 },
            Tier::Thorough => Budget { cases: 120_000, shards: 16, min_len: 24, max_len: 260 },
        }
    }
    fn fuzz_targets(&self) -> Vec<(&'static str, u64, usize)> {
        vec![("prop", 400_000, 260)]
    }
    fn rule(&self) -> String {
        "bytes -> (phase, 1-3 Direct/Reject/Current rules with threshold from a boundary menu and stat_interval_ms from the three geometry classes default/reuse/private, 5-80 steps of clock advance (menu incl. exact bucket boundaries, boundary+-1, interval, interval+-1, 3x interval, >10 s) + request(batch 0..6) or exit(any open entry)) via proptest vec<u8>; oracle: admit <=> for every rule, tokens admitted in the rule's bucket-aligned window + n <= threshold (computed from the admitted log by definition); non-trivial = >=1 admission, >=1 rejection and >=1 admission after the clock crossed a bucket boundary since the previous admission; distinct = distinct decoded cases (hash of the decoded structure)".into()
    }
    fn assumptions(&self) -> Vec<String> {
        vec![
            "virtual clock hook (sentinel_verif): the only clock reads in sentinel-core go through utils::time".into(),
            "default configuration (global ring 20 x 500 ms, default metric 2 x 500 ms); other geometries are C17's domain".into(),
            "rules are loaded with flow::load_rules; requests are sequential (one thread)".into(),
        ]
    }
    fn run(&self, bytes: &[u8], cfg: &RunCfg) -> Verdict {
        let mut u = Bytes::new(bytes);
        let case = decode(&mut u);
        run_case(&case, cfg)
    }
}

pub fn run_case(case: &Case, cfg: &RunCfg) -> Verdict {
    const ID: &str = "C01";
    util::reset_all();
    let t0 = clock::new_case_epoch() + case.phase_ms;
    clock::set_ms(t0);
    let res = util::fresh_name("c01");
    let rules: Vec<Arc<flow::Rule>> = case
        .rules
        .iter()
        .map(|r| {
            Arc::new(flow::Rule {
                resource: res.clone(),
                threshold: r.threshold,
                stat_interval_ms: r.stat_interval_ms,
                calculate_strategy: flow::CalculateStrategy::Direct,
                control_strategy: flow::ControlStrategy::Reject,
                relation_strategy: flow::RelationStrategy::Current,
                ..Default::default()
            })
        })
        .collect();
    flow::load_rules(rules);
    // equal rules collapse into one controller; the oracle is insensitive to that
    let loaded = flow::get_rules_of_resource(&res);
    if loaded.is_empty() {
        fail!(ID, "rules-not-loaded", "rules-not-loaded", case, "no rule reported after load_rules");
    }
    let geos: Vec<(u64, u64, f64, &'static str)> = case
        .rules
        .iter()
        .map(|r| {
            let g = geometry(r.stat_interval_ms);
            (g.0, g.1, r.threshold, g.2)
        })
        .collect();

    let mut admitted: Vec<(u64, u64)> = Vec::new(); // (time, tokens)
    let mut open = OpenEntries::new();
    let (mut n_admit, mut n_reject, mut n_cross, mut n_boundary) = (0u64, 0u64, 0u64, 0u64);
    let mut last_admit_t: Option<u64> = None;
    let mut full_expiry = false;

    for (si, step) in case.steps.iter().enumerate() {
        match step {
            Step::Exit { dt, k } => {
                clock::advance_ms(*dt);
                let idx = open.open_indices();
                if !idx.is_empty() {
                    open.exit(idx[*k % idx.len()]);
                }
            }
            Step::Request { dt, batch } => {
                clock::advance_ms(*dt);
                let now = clock::now_ms();
                let n = *batch as u64;
                let mut expect_admit = true;
                let mut why = String::new();
                for (l, iv, thr, _) in &geos {
                    let cur = window_sum(&admitted, now, *l, *iv);
                    if (cur as f64) + (n as f64) > *thr {
                        expect_admit = false;
                        why = format!("rule(L={},I={},T={}) holds {} + {}", l, iv, thr, cur, n);
                    }
                    if now % *l == 0 {
                        n_boundary += 1;
                    }
                }
                let got = build(Req::new(&res, *batch));
                match got {
                    Ok(e) => {
                        if !expect_admit {
                            open.push(e);
                            fail!(ID, "over-admission", "over-admission", case,
                                "step {} t=+{}ms batch {}: admitted although {}", si, now - t0, n, why);
                        }
                        if let Some(lt) = last_admit_t {
                            if geos.iter().any(|(l, _, _, _)| now / *l != lt / *l) {
                                n_cross += 1;
                            }
                            if now - lt > 10_500 {
                                full_expiry = true;
                            }
                        }
                        last_admit_t = Some(now);
                        admitted.push((now, n));
                        n_admit += 1;
                        open.push(e);
                    }
                    Err(msg) => {
                        if expect_admit {
                            fail!(ID, "spurious-rejection", "spurious-rejection", case,
                                "step {} t=+{}ms batch {}: rejected although it fits every rule ({})", si, now - t0, n, msg.chars().take(160).collect::<String>());
                        }
                        let bt = block_type_of(&msg);
                        if bt != "Flow" {
                            fail!(ID, "wrong-block-type", format!("wrong-block-type|{}", bt), case,
                                "step {}: rejected with block type {} instead of Flow", si, bt);
                        }
                        n_reject += 1;
                    }
                }
            }
        }
    }
    // derived invariant, from the admitted log alone
    for (l, iv, thr, _) in &geos {
        for (t, n) in &admitted {
            if *n == 0 {
                continue;
            }
            let s = window_sum(&admitted.iter().filter(|(te, _)| te <= t).cloned().collect::<Vec<_>>(), *t, *l, *iv);
            if s as f64 > *thr {
                fail!(ID, "window-over-threshold", "window-over-threshold", case,
                    "window ending at +{}ms (L={},I={}) holds {} > threshold {}", t - t0, l, iv, s, thr);
            }
        }
    }
    drop(open);
    let mut classes = Vec::new();
    if n_boundary > 0 {
        classes.push("arrival-exactly-on-bucket-boundary");
    }
    if geos.iter().any(|g| g.3 == "private") {
        classes.push("private-ring");
    }
    if geos.iter().any(|g| g.3 == "reuse") {
        classes.push("reuse-global-ring");
    }
    if geos.iter().any(|g| g.3 == "default") {
        classes.push("default-window");
    }
    if geos.len() > 1 && geos.iter().any(|g| (g.0, g.1) != (geos[0].0, geos[0].1)) {
        classes.push("multi-rule-different-geometry");
    }
    if full_expiry {
        classes.push("full-ring-expiry");
    }
    if n_cross > 0 {
        classes.push("admission-after-rollover");
    }
    let nontrivial = n_admit >= 1 && n_reject >= 1 && n_cross >= 1;
    Verdict::Pass(CaseReport {
        nontrivial,
        classes,
        digest: digest_of(case),
        decoded: if cfg.want_decoded { serde_json::to_value(case).ok() } else { None },
        known_hits: vec![],
        counters: vec![("admissions", n_admit), ("rejections", n_reject)],
    })
}
