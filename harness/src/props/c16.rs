//! C16 — circuit-breaker transitions are atomic under concurrency: one probe, one winner.
use super::common::*;
use super::sched_common::*;
use crate::engine::*;
use crate::sched::{self, ctx};
use crate::util::{self, clock};
use sentinel_core::base::{EntryStrongPtr, Snapshot};
use sentinel_core::circuitbreaker::{self as cb, State, StateChangeListener};
use serde::{Deserialize, Serialize};
use std::sync::{Arc, Mutex};

pub struct C16;

#[derive(Debug, Clone, Serialize, Deserialize)]
pub struct Case {
    /// 0: several completions that each would open the breaker;
    /// 1: several requests arriving after the retry timeout;
    /// 2: a probe completion racing with a new request and a stale completion;
    /// 3: a probe that another rule (isolation) rejects - its roll-back to Open - racing with a stale completion
    ///    (and, with 3 threads, one more request)
    pub scenario: u8,
    /// 0 error count, 1 error ratio, 2 slow request ratio
    pub strategy: u8,
    pub nthreads: usize,
    /// outcome flags used by scenario 2: probe fails, stale completion fails
    pub probe_fails: bool,
    pub stale_fails: bool,
    pub schedule: Vec<(u32, u8)>,
}

pub fn decode(u: &mut Bytes) -> Case {
    let mut c = Case {
        scenario: u.choice(3) as u8,
        strategy: u.choice(3) as u8,
        nthreads: 2 + u.choice(2),
        probe_fails: u.bool(),
        stale_fails: u.bool(),
        schedule: decode_schedule(u, 5, 160),
    };
    // added later (drawn from the tail, so that committed replays keep their meaning)
    if u.tail_choice(4) == 3 {
        c.scenario = 3;
    }
    c
}

struct Rec(Mutex<Vec<(State, State)>>);
impl StateChangeListener for Rec {
    fn on_transform_to_closed(&self, prev: State, _r: Arc<cb::Rule>) {
        self.0.lock().unwrap().push((prev, State::Closed));
    }
    fn on_transform_to_open(&self, prev: State, _r: Arc<cb::Rule>, _s: Option<Arc<Snapshot>>) {
        self.0.lock().unwrap().push((prev, State::Open));
    }
    fn on_transform_to_half_open(&self, prev: State, _r: Arc<cb::Rule>) {
        self.0.lock().unwrap().push((prev, State::HalfOpen));
    }
}

fn rule(res: &str, strategy: u8) -> cb::Rule {
    let base = cb::Rule { resource: res.into(), retry_timeout_ms: 1000, stat_interval_ms: 10_000, min_request_amount: 1, max_allowed_rt_ms: 50, ..Default::default() };
    match strategy {
        0 => cb::Rule { strategy: cb::BreakerStrategy::ErrorCount, threshold: 1.0, ..base },
        1 => cb::Rule { strategy: cb::BreakerStrategy::ErrorRatio, threshold: 0.01, ..base },
        _ => cb::Rule { strategy: cb::BreakerStrategy::SlowRequestRatio, threshold: 0.01, ..base },
    }
}

/// complete an entry so that it counts as a failure (error / slow) or a success for `strategy`
fn complete(e: &EntryStrongPtr, fail: bool) {
    if fail {
        e.set_err(sentinel_core::Error::msg("biz"));
    }
    e.exit();
}

pub fn execute(case: &Case, schedule: &[(u32, u8)], bytes_hex: &str) -> Result<sched::RunInfo, (String, String)> {
    warm_up();
    util::reset_all();
    let t0 = clock::new_case_epoch() + 100;
    clock::set_ms(t0);
    let res = util::fresh_name("c16");
    let rec = Arc::new(Rec(Mutex::new(Vec::new())));
    cb::register_state_change_listeners(vec![rec.clone()]);
    cb::load_rules(vec![Arc::new(rule(&res, case.strategy))]);
    let breaker = cb::get_breakers_of_resource(&res).into_iter().next().ok_or(("setup".to_string(), "no breaker".to_string()))?;
    let slow = case.strategy == 2;
    // for the slow strategy a "failing" completion is one that exits > 50 ms after its entry:
    // entries meant to fail are built 100 ms before the phase, entries meant to succeed right at it
    let admitted: Arc<Mutex<Vec<usize>>> = Arc::new(Mutex::new(Vec::new()));
    let mut bodies: Vec<sched::Body> = Vec::new();
    let initial_state;
    let mut phase_entries: Vec<EntryStrongPtr> = Vec::new();
    match case.scenario {
        0 => {
            // n admitted entries, each completion alone would open the breaker
            for _ in 0..case.nthreads {
                phase_entries.push(build(Req::new(&res, 1)).map_err(|m| ("setup".to_string(), m))?);
            }
            clock::advance_ms(100);
            initial_state = State::Closed;
            for e in phase_entries.drain(..) {
                bodies.push(Box::new(move || complete(&e, true)));
            }
        }
        1 => {
            // trip the breaker, let the retry timeout pass, then n requests at once
            let e = build(Req::new(&res, 1)).map_err(|m| ("setup".to_string(), m))?;
            clock::advance_ms(100);
            complete(&e, true);
            if breaker.current_state() != State::Open {
                return Err(("setup".into(), format!("breaker did not open in setup: {:?}", breaker.current_state())));
            }
            clock::advance_ms(1000);
            initial_state = State::Open;
            for i in 0..case.nthreads {
                let res = res.clone();
                let admitted = admitted.clone();
                bodies.push(Box::new(move || {
                    if let Ok(e) = build(Req::new(&res, 1)) {
                        admitted.lock().unwrap().push(i);
                        // keep the probe in flight: completion is not part of this scenario
                        std::mem::forget(e);
                    }
                }));
            }
        }
        3 => {
            // a stale entry admitted while Closed, breaker tripped by another, retry timeout over; an isolation rule
            // (threshold 1, loaded now) rejects the next request while the stale entry is in flight: the breaker lets it
            // through as its probe, the entry ends up blocked, and its exit rolls the breaker back to Open - unless the
            // stale completion has decided the probe phase in between
            let stale = build(Req::new(&res, 1)).map_err(|m| ("setup".to_string(), m))?;
            let trip = build(Req::new(&res, 1)).map_err(|m| ("setup".to_string(), m))?;
            clock::advance_ms(100);
            complete(&trip, true);
            if breaker.current_state() != State::Open {
                return Err(("setup".into(), format!("breaker did not open in setup: {:?}", breaker.current_state())));
            }
            clock::advance_ms(1000);
            sentinel_core::isolation::load_rules(vec![Arc::new(sentinel_core::isolation::Rule { resource: res.clone(), threshold: 1, ..Default::default() })]);
            initial_state = State::Open;
            let sf = case.stale_fails || slow;
            for i in 0..(case.nthreads - 1) {
                let res = res.clone();
                let admitted = admitted.clone();
                bodies.push(Box::new(move || {
                    if let Ok(e) = build(Req::new(&res, 1)) {
                        admitted.lock().unwrap().push(i);
                        std::mem::forget(e);
                    }
                }));
            }
            bodies.push(Box::new(move || complete(&stale, sf)));
        }
        _ => {
            // a stale entry admitted while Closed, breaker tripped by another, probe admitted; then race
            let stale = build(Req::new(&res, 1)).map_err(|m| ("setup".to_string(), m))?;
            let trip = build(Req::new(&res, 1)).map_err(|m| ("setup".to_string(), m))?;
            clock::advance_ms(100);
            complete(&trip, true);
            clock::advance_ms(1000);
            // probe: for the slow strategy a failing probe must have started > 50 ms before it completes
            let probe = build(Req::new(&res, 1)).map_err(|m| ("setup".to_string(), format!("probe not admitted: {}", m)))?;
            if breaker.current_state() != State::HalfOpen {
                return Err(("setup".into(), format!("breaker not half-open in setup: {:?}", breaker.current_state())));
            }
            if slow && case.probe_fails {
                clock::advance_ms(100);
            }
            initial_state = State::HalfOpen;
            let (pf, sf) = (case.probe_fails, case.stale_fails || slow); // a stale entry is always slow by now
            bodies.push(Box::new(move || complete(&probe, pf)));
            {
                let res = res.clone();
                let admitted = admitted.clone();
                bodies.push(Box::new(move || {
                    if let Ok(e) = build(Req::new(&res, 1)) {
                        admitted.lock().unwrap().push(1);
                        std::mem::forget(e);
                    }
                }));
            }
            if case.nthreads >= 3 {
                bodies.push(Box::new(move || complete(&stale, sf)));
            } else {
                std::mem::forget(stale);
            }
        }
    }
    let setup_log_len = rec.0.lock().unwrap().len();
    ctx::set(ctx::FatalCtx { property: "C16", bytes_hex: bytes_hex.to_string(), decoded: serde_json::to_value(case).unwrap(), key_prefix: format!("C16|scenario{}", case.scenario), schedule: schedule.to_vec() });
    let info = sched::run(bodies, schedule, 400_000, ctx::on_fatal);
    if let Some((tid, msg)) = info.panics.first() {
        return Err(("panic".into(), format!("thread {} panicked: {}", tid, msg)));
    }
    let log: Vec<(State, State)> = rec.0.lock().unwrap()[setup_log_len..].to_vec();
    let admitted_n = admitted.lock().unwrap().len();
    let fin = breaker.current_state();
    // the listener log is a path of the state machine, starting at the state before the phase
    let mut cur = initial_state;
    for (i, (from, to)) in log.iter().enumerate() {
        let legal = matches!((from, to), (State::Closed, State::Open) | (State::Open, State::HalfOpen) | (State::HalfOpen, State::Open) | (State::HalfOpen, State::Closed));
        if *from != cur || !legal {
            return Err(("listener-log-not-a-path".into(), format!("transition {} of {:?} does not start where the previous one ended (state before the phase {:?}, schedule {:?})", i, log, initial_state, schedule)));
        }
        cur = *to;
    }
    if fin != cur {
        return Err(("final-state-differs-from-log".into(), format!("current_state() is {:?} but the announced transitions {:?} end in {:?} (schedule {:?})", fin, log, cur, schedule)));
    }
    match case.scenario {
        0 => {
            if log != vec![(State::Closed, State::Open)] {
                return Err(("opening-not-exactly-once".into(), format!("{} failing completions, transitions announced: {:?} (schedule {:?})", case.nthreads, log, schedule)));
            }
        }
        1 => {
            let probes = log.iter().filter(|t| **t == (State::Open, State::HalfOpen)).count();
            if admitted_n != 1 || probes != 1 {
                return Err(("probe-not-exactly-one".into(), format!("{} requests after the retry timeout: {} admitted, transitions {:?} (schedule {:?})", case.nthreads, admitted_n, log, schedule)));
            }
        }
        3 => {
            // a request that got through is a probe (one per Open -> Half-Open) unless the breaker closed in between
            let closed = log.iter().any(|t| t.1 == State::Closed);
            let probes = log.iter().filter(|t| **t == (State::Open, State::HalfOpen)).count();
            if !closed && admitted_n > probes {
                return Err(("more-admissions-than-probes".into(), format!("{} requests were admitted although the breaker never closed and only {} probe phases began: transitions {:?} (schedule {:?})", admitted_n, probes, log, schedule)));
            }
        }
        _ => {
            // the new request may pass only if the breaker was closed by then
            let closed = log.iter().any(|t| t.1 == State::Closed);
            if admitted_n > 0 && !closed {
                return Err(("admitted-while-not-closed".into(), format!("a request was admitted during the probe phase although the breaker never closed: transitions {:?} (schedule {:?})", log, schedule)));
            }
        }
    }
    // tidy: nothing else to exit (forgotten entries belong to a resource that is never reused)
    Ok(info)
}

fn run_case(case: Case, hex: &str, cfg: &RunCfg) -> Verdict {
    match execute(&case, &case.schedule, hex) {
        Err((clause, detail)) => Verdict::Fail(Failure { clause: clause.clone(), key: format!("C16|scenario{}|{}", case.scenario, clause), detail, decoded: serde_json::to_value(&case).unwrap() }),
        Ok(info) => Verdict::Pass(CaseReport {
            nontrivial: info.effective_preemptions > 0,
            classes: vec![["several-opening-completions", "several-requests-after-retry-timeout", "probe-completion-vs-request-vs-stale-completion", "probe-rejected-by-isolation-vs-stale-completion"][case.scenario as usize], ["error-count", "error-ratio", "slow-ratio"][case.strategy as usize]],
            digest: digest_of(&case),
            decoded: if cfg.want_decoded { serde_json::to_value(&case).ok() } else { None },
            known_hits: vec![],
            counters: vec![("schedule_points", info.points as u64), ("effective_preemptions", info.effective_preemptions as u64)],
        }),
    }
}

impl Property for C16 {
    fn id(&self) -> &'static str {
        "C16"
    }
    fn budget(&self, tier: Tier) -> Budget {
        match tier {
            Tier::Quick => Budget { cases: 400, shards: 16, min_len: 10, max_len: 40 },
            Tier::Thorough => Budget { cases: 12_000, shards: 16, min_len: 10, max_len: 40 },
        }
    }
    fn dirty_on_fail(&self) -> bool {
        true
    }
    fn rule(&self) -> String {
        "bytes -> scenario around one transition of one breaker (several completions that each would open it; several requests right after the retry timeout; a probe completion racing with a new request and a stale completion; a probe that an isolation rule rejects, i.e. its roll-back to Open, racing with a stale completion and one more request), strategy (error count / error ratio / slow ratio), 2-3 threads, probe and stale outcomes, schedule of up to 5 preemptions; plus (coverage.extra) exhaustive enumeration of all schedules with <= k preemptions (k = 2 quick, 3 thorough) of the 2-thread variant of each scenario x strategy; oracle per execution: the listener log of the phase is a path of the state machine starting at the state before the phase, current_state() equals its end, exactly one Closed->Open for several opening completions, exactly one admitted request and one Open->Half-Open for several requests after the timeout, no admission during a probe phase unless the breaker closed, no more admissions than probe phases around a rejected probe unless it closed; non-trivial = a preemption actually switched threads; distinct = distinct (scenario, schedule)".into()
    }
    fn assumptions(&self) -> Vec<String> {
        vec!["as C14 (cooperative scheduler over std sync operations); virtual clock fixed during the concurrent phase".into()]
    }
    fn describe(&self, bytes: &[u8]) -> Option<serde_json::Value> {
        serde_json::to_value(decode(&mut Bytes::new(bytes))).ok()
    }
    fn run_decoded(&self, decoded: &serde_json::Value, cfg: &RunCfg) -> Option<Verdict> {
        let case: Case = serde_json::from_value(decoded.clone()).ok()?;
        Some(run_case(case, "", cfg))
    }
    fn run(&self, bytes: &[u8], cfg: &RunCfg) -> Verdict {
        run_case(decode(&mut Bytes::new(bytes)), &util::hex(bytes), cfg)
    }
    fn extra(&self, tier: Tier) -> Option<Result<(u64, serde_json::Value), Failure>> {
        let k = if tier == Tier::Quick { 2 } else { 3 };
        let mut runs = 0u64;
        let mut complete_all = true;
        let mut scen = 0;
        for scenario in 0..4u8 {
            for strategy in 0..3u8 {
                for (pf, sf) in [(false, false), (true, false), (false, true)] {
                    if (scenario < 2 && (pf || sf)) || (scenario == 3 && pf) {
                        continue;
                    }
                    let case = Case { scenario, strategy, nthreads: if scenario == 2 { 3 } else { 2 }, probe_fails: pf, stale_fails: sf, schedule: vec![] };
                    scen += 1;
                    let r = sched::enumerate_bounded(k, if tier == Tier::Quick { 6_000 } else { 400_000 }, |s| {
                        let mut c = case.clone();
                        c.schedule = s.to_vec();
                        execute(&c, s, "").map_err(|(clause, detail)| Failure { clause: clause.clone(), key: format!("C16|scenario{}|{}", c.scenario, clause), detail, decoded: serde_json::to_value(&c).unwrap() })
                    });
                    match r {
                        Err(f) => return Some(Err(f)),
                        Ok((n, c)) => {
                            runs += n;
                            complete_all &= c;
                        }
                    }
                }
            }
        }
        Some(Ok((runs, serde_json::json!({"exhaustive_subdomain": format!("each scenario x strategy (x probe/stale outcome), all schedules with <= {} preemptions (capped per scenario)", k), "scenarios": scen, "executions": runs, "space_exhausted": complete_all}))))
    }
}
