//! Shared helpers for property interpreters.
use sentinel_core::api::EntryBuilder;
use sentinel_core::base::{EntryStrongPtr, ParamsList, ParamsMap, TrafficType};

pub struct Req<'a> {
    pub res: &'a str,
    pub batch: u32,
    pub inbound: bool,
    pub args: Option<ParamsList>,
    pub attachments: Option<ParamsMap>,
}

impl<'a> Req<'a> {
    pub fn new(res: &'a str, batch: u32) -> Self {
        Req { res, batch, inbound: false, args: None, attachments: None }
    }
}

pub fn build(r: Req) -> Result<EntryStrongPtr, String> {
    let mut b = EntryBuilder::new(r.res.to_string())
        .with_batch_count(r.batch)
        .with_traffic_type(if r.inbound { TrafficType::Inbound } else { TrafficType::Outbound });
    if r.args.is_some() {
        b = b.with_args(r.args);
    }
    if r.attachments.is_some() {
        b = b.with_attachments(r.attachments);
    }
    b.build().map_err(|e| e.to_string())
}

/// Extract the block type name from the error text handed to the caller
/// (`TokenResult::Blocked: BlockError { block_type: Flow, ...`).
pub fn block_type_of(err: &str) -> String {
    if let Some(i) = err.find("block_type: ") {
        let rest = &err[i + 12..];
        let end = rest.find(|c: char| c == ',' || c == ' ' || c == '}').unwrap_or(rest.len());
        rest[..end].to_string()
    } else {
        "?".to_string()
    }
}

/// Exits every entry still open when dropped (also on the failure path).
pub struct OpenEntries(pub Vec<Option<EntryStrongPtr>>);

impl OpenEntries {
    pub fn new() -> Self {
        OpenEntries(Vec::new())
    }
    pub fn push(&mut self, e: EntryStrongPtr) -> usize {
        self.0.push(Some(e));
        self.0.len() - 1
    }
    pub fn open_indices(&self) -> Vec<usize> {
        self.0.iter().enumerate().filter(|(_, e)| e.is_some()).map(|(i, _)| i).collect()
    }
    pub fn exit(&mut self, i: usize) -> bool {
        if let Some(e) = self.0.get_mut(i).and_then(|e| e.take()) {
            e.exit();
            true
        } else {
            false
        }
    }
    pub fn open_count(&self) -> usize {
        self.0.iter().filter(|e| e.is_some()).count()
    }
}

impl Drop for OpenEntries {
    fn drop(&mut self) {
        for e in self.0.iter_mut() {
            if let Some(e) = e.take() {
                let _ = std::panic::catch_unwind(std::panic::AssertUnwindSafe(|| e.exit()));
            }
        }
    }
}

#[macro_export]
macro_rules! fail {
    ($id:expr, $clause:expr, $key:expr, $decoded:expr, $($arg:tt)*) => {
        return $crate::engine::Verdict::Fail($crate::engine::Failure {
            clause: $clause.to_string(),
            key: format!("{}|{}", $id, $key),
            detail: format!($($arg)*),
            decoded: serde_json::to_value($decoded).unwrap_or(serde_json::Value::Null),
        })
    };
}

pub fn digest_of<T: std::fmt::Debug>(t: &T) -> u64 {
    crate::util::fnv64(format!("{:?}", t).as_bytes())
}

// ---------------------------------------------------------------------------------------------
// A copy of the global slot chain plus a recording statistic slot (so the BlockError a custom
// StatSlot receives can be judged, not only the error text).
use sentinel_core::base::{BaseSlot, BlockError, EntryContext, SlotChain, StatSlot};
use std::sync::{Arc, Mutex, OnceLock};

#[derive(Debug, Clone, Default)]
pub struct Recorded {
    pub block_type: String,
    pub block_msg: String,
    pub rule_debug: Option<String>,
    pub value_debug: Option<String>,
}

#[derive(Default)]
pub struct RecorderSlot {
    pub last_block: Mutex<Option<Recorded>>,
    pub passes: Mutex<u64>,
    pub completes: Mutex<u64>,
}

impl BaseSlot for RecorderSlot {
    fn order(&self) -> u32 {
        9000
    }
}

impl StatSlot for RecorderSlot {
    fn on_entry_pass(&self, _ctx: &EntryContext) {
        *self.passes.lock().unwrap() += 1;
    }
    fn on_entry_blocked(&self, _ctx: &EntryContext, e: BlockError) {
        *self.last_block.lock().unwrap() = Some(Recorded {
            block_type: format!("{:?}", e.block_type()),
            block_msg: e.block_msg(),
            rule_debug: e.triggered_rule().map(|r| format!("{:?}", r)),
            value_debug: e.triggered_value().map(|v| format!("{:?}", v)),
        });
    }
    fn on_completed(&self, _ctx: &mut EntryContext) {
        *self.completes.lock().unwrap() += 1;
    }
}

pub fn recording_chain() -> (Arc<SlotChain>, Arc<RecorderSlot>) {
    static CHAIN: OnceLock<(Arc<SlotChain>, Arc<RecorderSlot>)> = OnceLock::new();
    CHAIN
        .get_or_init(|| {
            use sentinel_core::{circuitbreaker, flow, hotspot, isolation, log, stat, system};
            let rec = Arc::new(RecorderSlot::default());
            let mut sc = SlotChain::new();
            sc.add_stat_prepare_slot(stat::verif_export::default_resource_node_prepare_slot());
            sc.add_rule_check_slot(system::default_slot());
            sc.add_rule_check_slot(flow::default_slot());
            sc.add_rule_check_slot(isolation::default_slot());
            sc.add_rule_check_slot(hotspot::default_slot());
            sc.add_rule_check_slot(circuitbreaker::default_slot());
            sc.add_stat_slot(stat::verif_export::default_resource_stat_slot());
            sc.add_stat_slot(log::default_stat_slot());
            sc.add_stat_slot(flow::default_stand_alone_stat_slot());
            sc.add_stat_slot(hotspot::default_stand_alone_stat_slot());
            sc.add_stat_slot(circuitbreaker::default_metric_stat_slot());
            sc.add_stat_slot(rec.clone());
            (Arc::new(sc), rec)
        })
        .clone()
}

/// build through the recording chain; on block returns (error text, what the recorder saw)
pub fn build_recorded(r: Req) -> Result<EntryStrongPtr, (String, Option<Recorded>)> {
    let (chain, rec) = recording_chain();
    *rec.last_block.lock().unwrap() = None;
    let mut b = EntryBuilder::new(r.res.to_string())
        .with_batch_count(r.batch)
        .with_slot_chain(chain)
        .with_traffic_type(if r.inbound { TrafficType::Inbound } else { TrafficType::Outbound });
    if r.args.is_some() {
        b = b.with_args(r.args);
    }
    if r.attachments.is_some() {
        b = b.with_attachments(r.attachments);
    }
    match b.build() {
        Ok(e) => Ok(e),
        Err(e) => Err((e.to_string(), rec.last_block.lock().unwrap().clone())),
    }
}

/// `global` = through the library's own global slot chain (what applications use; no recorder, so only the error
/// text can be judged), otherwise through the recording copy of it
pub fn build_either(r: Req, global: bool) -> Result<EntryStrongPtr, (String, Option<Recorded>)> {
    if global {
        build(r).map_err(|m| (m, None))
    } else {
        build_recorded(r)
    }
}
