//! Shared helpers for property interpreters.
use sentinel_core::api::EntryBuilder;
use sentinel_core::base::{EntryStrongPtr, ParamsList, ParamsMap, TrafficType};

pub struct Req<'a> {
    pub res: &'a str,
    pub batch: u32,
    pub inbound: bool,
    pub args: Option<ParamsList>,
    pub attachments: Option<ParamsMap>,
}

impl<'a> Req<'a> {
    pub fn new(res: &'a str, batch: u32) -> Self {
        Req { res, batch, inbound: false, args: None, attachments: None }
    }
}

pub fn build(r: Req) -> Result<EntryStrongPtr, String> {
    let mut b = EntryBuilder::new(r.res.to_string())
        .with_batch_count(r.batch)
        .with_traffic_type(if r.inbound { TrafficType::Inbound } else { TrafficType::Outbound });
    if r.args.is_some() {
        b = b.with_args(r.args);
    }
    if r.attachments.is_some() {
        b = b.with_attachments(r.attachments);
    }
    b.build().map_err(|e| e.to_string())
}

/// Extract the block type name from the error text handed to the caller
/// (`TokenResult::Blocked: BlockError { block_type: Flow, ...`).
pub fn block_type_of(err: &str) -> String {
    if let Some(i) = err.find("block_type: ") {
        let rest = &err[i + 12..];
        let end = rest.find(|c: char| c == ',' || c == ' ' || c == '}').unwrap_or(rest.len());
        rest[..end].to_string()
    } else {
        "?".to_string()
    }
}

/// Exits every entry still open when dropped (also on the failure path).
pub struct OpenEntries(pub Vec<Option<EntryStrongPtr>>);

impl OpenEntries {
    pub fn new() -> Self {
        OpenEntries(Vec::new())
    }
    pub fn push(&mut self, e: EntryStrongPtr) -> usize {
        self.0.push(Some(e));
        self.0.len() - 1
    }
    pub fn open_indices(&self) -> Vec<usize> {
        self.0.iter().enumerate().filter(|(_, e)| e.is_some()).map(|(i, _)| i).collect()
    }
    pub fn exit(&mut self, i: usize) -> bool {
        if let Some(e) = self.0.get_mut(i).and_then(|e| e.take()) {
            e.exit();
            true
        } else {
            false
        }
    }
    pub fn open_count(&self) -> usize {
        self.0.iter().filter(|e| e.is_some()).count()
    }
}

impl Drop for OpenEntries {
    fn drop(&mut self) {
        for e in self.0.iter_mut() {
            if let Some(e) = e.take() {
                let _ = std::panic::catch_unwind(std::panic::AssertUnwindSafe(|| e.exit()));
            }
        }
    }
}

#[macro_export]
macro_rules! fail {
    ($id:expr, $clause:expr, $key:expr, $decoded:expr, $($arg:tt)*) => {
        return $crate::engine::Verdict::Fail($crate::engine::Failure {
            clause: $clause.to_string(),
            key: format!("{}|{}", $id, $key),
            detail: format!($($arg)*),
            decoded: serde_json::to_value($decoded).unwrap_or(serde_json::Value::Null),
        })
    };
}

pub fn digest_of<T: std::fmt::Debug>(t: &T) -> u64 {
    crate::util::fnv64(format!("{:?}", t).as_bytes())
}
