//! C05 — concurrency caps (isolation, hotspot concurrency) hold and are reported rightly.
use super::common::*;
use crate::engine::*;
use crate::fail;
use crate::util::{self, clock};
use sentinel_core::base::ConcurrencyStat;
use sentinel_core::{hotspot, isolation, stat};
use serde::Serialize;
use std::collections::HashMap;
use std::sync::Arc;

pub struct C05;

#[derive(Debug, Clone, Serialize)]
pub struct HotRule {
    pub threshold: u64,
    pub param_index: isize,
    pub param_key: String,
    pub overrides: Vec<(String, u64)>,
    pub capacity: usize,
}

#[derive(Debug, Clone, Serialize)]
pub enum Step {
    Build { batch: u32, args: Option<Vec<String>>, att: Option<Vec<(String, String)>>, dt: u64 },
    Exit { k: usize, dt: u64 },
}

#[derive(Debug, Clone, Serialize)]
pub struct Case {
    /// isolation thresholds (empty in hotspot mode)
    pub iso: Vec<u32>,
    pub hot: Vec<HotRule>,
    pub steps: Vec<Step>,
    /// entries go through the library's global slot chain instead of the recording copy of it
    pub global_chain: bool,
}

const VALUES: [&str; 3] = ["a", "b", "c"];

pub fn decode(u: &mut Bytes) -> Case {
    let hot_mode = u.bool();
    let mut iso = Vec::new();
    let mut hot = Vec::new();
    if !hot_mode {
        let n = 1 + u.choice(3);
        for _ in 0..n {
            iso.push(1 + u.choice(5) as u32);
        }
    } else {
        let n = 1 + u.choice(2);
        for _ in 0..n {
            let keyed = u.choice(4) == 3;
            let param_index = if keyed { 0 } else { [0isize, 1, -1, -2, 5][u.choice(5)] };
            let mut overrides = Vec::new();
            for v in VALUES.iter() {
                if u.choice(3) == 2 {
                    overrides.push((v.to_string(), 1 + u.choice(4) as u64));
                }
            }
            hot.push(HotRule {
                threshold: 1 + u.choice(4) as u64,
                param_index,
                param_key: if keyed { "k".into() } else { String::new() },
                overrides,
                capacity: [0usize, 3, 4][u.choice(3)],
            });
        }
    }
    let n = 4 + u.choice(40);
    let mut steps = Vec::new();
    let mut open = 0usize;
    for _ in 0..n {
        let dt = [0u64, 0, 1, 499, 1000, 12_000][u.choice(6)];
        if open > 0 && (u.choice(5) >= 3 || open >= 8) {
            steps.push(Step::Exit { k: u.choice(8), dt });
            open -= 1; // upper bound on what can be open; blocked builds keep it conservative
        } else {
            let batch = 1 + u.choice(4) as u32;
            let (args, att) = if hot_mode {
                let args = match u.choice(5) {
                    0 => None,
                    k => {
                        let len = k - 1; // 0..3
                        Some((0..len).map(|_| VALUES[u.choice(3)].to_string()).collect::<Vec<_>>())
                    }
                };
                let att = match u.choice(4) {
                    0 | 1 => None,
                    2 => Some(vec![("other".to_string(), VALUES[u.choice(3)].to_string())]),
                    _ => Some(vec![("k".to_string(), VALUES[u.choice(3)].to_string())]),
                };
                (args, att)
            } else {
                (None, None)
            };
            steps.push(Step::Build { batch, args, att, dt });
            open += 1;
        }
    }
    let global_chain = u.tail_choice(3) == 2;
    Case { iso, hot, steps, global_chain }
}

/// the parameter a rule looks at, per the rule documentation: the attachment under `param_key`
/// has priority; otherwise the `param_index`-th argument (negative counts from the end); a
/// missing parameter means the rule is not applied to this entry.
fn extract(r: &HotRule, args: &Option<Vec<String>>, att: &Option<Vec<(String, String)>>) -> Option<String> {
    if let Some(att) = att {
        let key = r.param_key.trim();
        if !key.is_empty() {
            if let Some((_, v)) = att.iter().find(|(k, _)| k == key) {
                return Some(v.clone());
            }
        }
    }
    let args = args.as_ref()?;
    let mut idx = r.param_index;
    if idx < 0 {
        idx += args.len() as isize;
    }
    if idx < 0 || idx as usize >= args.len() {
        return None;
    }
    Some(args[idx as usize].clone())
}

impl Property for C05 {
    fn id(&self) -> &'static str {
        "C05"
    }
    fn budget(&self, tier: Tier) -> Budget {
        match tier {
            Tier::Quick => Budget { cases: 12_000, shards: 16, min_len: 16, max_len: 260 },
            Tier::Thorough => Budget { cases: 150_000, shards: 16, min_len: 16, max_len: 260 },
        }
    }
    fn fuzz_targets(&self) -> Vec<(&'static str, u64, usize)> {
        vec![("prop", 300_000, 260)]
    }
    fn rule(&self) -> String {
        "bytes -> either 1-3 isolation rules (threshold 1..5) or 1-2 hotspot Concurrency rules (threshold 1..4, param_index in {0,1,-1,-2,5} or param_key, per-value overrides 1..4, capacity 0(default)/3/4 with <= 3 distinct values), 4-44 steps build(batch 1..4, args of length 0..3 / none, attachments with/without the key) / exit(any open entry), up to 8 open entries; oracle: isolation admits <=> for every rule in_flight + n <= T, hotspot per extracted value (batch 1: admit <=> in_flight_v + 1 <= T_v; batch n>1: must admit if in_flight_v + n <= T_v, must reject if in_flight_v >= T_v), entries go through a recording copy of the global slot chain (block type and triggered rule checked both in the Err text and in the BlockError a custom StatSlot receives) or, a third of the cases, through the library's global slot chain itself (Err text only); non-trivial = a rejection at the cap, then an exit, then an admission, with >= 2 values or >= 2 rules; distinct = distinct decoded cases".into()
    }
    fn assumptions(&self) -> Vec<String> {
        vec![
            "thresholds and overrides >= 1 (the property's quantifier); hotspot threshold 0 is outside it".into(),
            "distinct parameter values stay within the rule's capacity".into(),
            "requests are sequential; the custom chain is the global chain's slots plus one recording StatSlot (hook export of the two default stat slots)".into(),
        ]
    }
    fn run(&self, bytes: &[u8], cfg: &RunCfg) -> Verdict {
        let mut u = Bytes::new(bytes);
        let case = decode(&mut u);
        run_case(&case, cfg)
    }
}

struct OpenRec {
    idx: usize,
    vals: Vec<Option<String>>,
}

pub fn run_case(case: &Case, cfg: &RunCfg) -> Verdict {
    const ID: &str = "C05";
    util::reset_all();
    clock::new_case_epoch();
    let res = util::fresh_name("c05");
    let iso_rules: Vec<Arc<isolation::Rule>> = case
        .iso
        .iter()
        .map(|t| Arc::new(isolation::Rule { resource: res.clone(), threshold: *t, ..Default::default() }))
        .collect();
    if !iso_rules.is_empty() {
        isolation::load_rules(iso_rules.clone());
    }
    let hot_rules: Vec<Arc<hotspot::Rule>> = case
        .hot
        .iter()
        .map(|h| {
            Arc::new(hotspot::Rule {
                resource: res.clone(),
                metric_type: hotspot::MetricType::Concurrency,
                control_strategy: hotspot::ControlStrategy::Reject,
                param_index: h.param_index,
                param_key: h.param_key.clone(),
                threshold: h.threshold,
                params_max_capacity: h.capacity,
                specific_items: h.overrides.iter().cloned().collect(),
                ..Default::default()
            })
        })
        .collect();
    if !hot_rules.is_empty() {
        hotspot::load_rules(hot_rules.clone());
    }
    // the rules actually active (equal rules collapse); map each to its spec by Debug-independent fields
    let active_hot = hotspot::get_rules_of_resource(&res);
    let hot_specs: Vec<(HotRule, String)> = active_hot
        .iter()
        .map(|r| {
            (
                HotRule {
                    threshold: r.threshold,
                    param_index: r.param_index,
                    param_key: r.param_key.clone(),
                    overrides: r.specific_items.iter().map(|(k, v)| (k.clone(), *v)).collect(),
                    capacity: r.params_max_capacity,
                },
                format!("{:?}", r),
            )
        })
        .collect();
    if !case.hot.is_empty() && hot_specs.is_empty() {
        fail!(ID, "rules-not-loaded", "rules-not-loaded", case, "hotspot rules not reported after load");
    }
    let active_iso = isolation::get_rules_of_resource(&res);
    if !case.iso.is_empty() && active_iso.is_empty() {
        fail!(ID, "rules-not-loaded", "rules-not-loaded", case, "isolation rules not reported after load");
    }
    let iso_min = active_iso.iter().map(|r| r.threshold).min();

    let mut open = OpenEntries::new();
    let mut recs: Vec<OpenRec> = Vec::new();
    let mut inflight: Vec<HashMap<String, u64>> = vec![HashMap::new(); hot_specs.len()];
    // progress of the non-triviality pattern: reject at cap -> exit -> admission
    let mut pattern = 0u8;
    let mut values_seen: std::collections::HashSet<String> = Default::default();
    let (mut n_rej, mut n_adm, mut n_either) = (0u64, 0u64, 0u64);

    for (si, step) in case.steps.iter().enumerate() {
        match step {
            Step::Exit { k, dt } => {
                clock::advance_ms(*dt);
                if !recs.is_empty() {
                    let r = recs.remove(*k % recs.len());
                    open.exit(r.idx);
                    for (ri, v) in r.vals.iter().enumerate() {
                        if let Some(v) = v {
                            *inflight[ri].get_mut(v).unwrap() -= 1;
                        }
                    }
                    if pattern == 1 {
                        pattern = 2;
                    }
                }
            }
            Step::Build { batch, args, att, dt } => {
                clock::advance_ms(*dt);
                let n = *batch as u64;
                let open_now = recs.len() as u64;
                // expected decision
                let mut must_admit = true;
                let mut must_reject = false;
                let mut blockers: Vec<String> = Vec::new(); // Debug strings of rules that may legitimately be named
                for r in &active_iso {
                    if open_now + n > r.threshold as u64 {
                        must_admit = false;
                        must_reject = true;
                        blockers.push(format!("{:?}", r));
                    }
                }
                let vals: Vec<Option<String>> = hot_specs.iter().map(|(h, _)| extract(h, args, att)).collect();
                for (ri, (h, dbg)) in hot_specs.iter().enumerate() {
                    if let Some(v) = &vals[ri] {
                        values_seen.insert(v.clone());
                        let t = h.overrides.iter().find(|(k, _)| k == v).map(|(_, t)| *t).unwrap_or(h.threshold);
                        let cur = *inflight[ri].get(v).unwrap_or(&0);
                        if cur >= t {
                            must_reject = true;
                            must_admit = false;
                            blockers.push(dbg.clone());
                        } else if cur + n > t {
                            // "plus n" vs "one more entry": both readings accepted
                            must_admit = false;
                            blockers.push(dbg.clone());
                        }
                    }
                }
                let mut req = Req::new(&res, *batch);
                req.args = args.clone();
                req.attachments = att.as_ref().map(|a| a.iter().cloned().collect());
                match build_either(req, case.global_chain) {
                    Ok(e) => {
                        if must_reject {
                            open.push(e);
                            fail!(ID, "over-admission", "over-admission", case,
                                "step {}: admitted (batch {}) although a cap is reached: open entries {}, per-value in-flight {:?}, candidates {:?}", si, n, open_now, inflight, blockers);
                        }
                        if !must_admit {
                            n_either += 1;
                        }
                        n_adm += 1;
                        let idx = open.push(e);
                        for (ri, v) in vals.iter().enumerate() {
                            if let Some(v) = v {
                                *inflight[ri].entry(v.clone()).or_insert(0) += 1;
                            }
                        }
                        recs.push(OpenRec { idx, vals });
                        if pattern == 2 {
                            pattern = 3;
                        }
                    }
                    Err((msg, recd)) => {
                        if must_admit {
                            fail!(ID, "spurious-rejection", "spurious-rejection", case,
                                "step {}: rejected (batch {}) although every cap has room: open entries {}, per-value in-flight {:?}; {}", si, n, open_now, inflight, msg.chars().take(200).collect::<String>());
                        }
                        if !must_reject {
                            n_either += 1;
                        }
                        n_rej += 1;
                        let want_type = if case.hot.is_empty() { "Isolation" } else { "HotSpotParamFlow" };
                        let bt = block_type_of(&msg);
                        let rbt = if case.global_chain { bt.clone() } else { recd.as_ref().map(|r| r.block_type.clone()).unwrap_or_else(|| "<none>".into()) };
                        if bt != want_type || rbt != want_type {
                            fail!(ID, "wrong-block-type", format!("wrong-block-type|{}|{}", want_type, bt), case,
                                "step {}: rejection reported as {} (custom StatSlot saw {}) instead of {}", si, bt, rbt, want_type);
                        }
                        let named = if case.global_chain {
                            // no recorder in the global chain: the rule named is looked for in the error text
                            Some(blockers.iter().find(|b| msg.contains(b.as_str())).cloned().unwrap_or_else(|| "<none of the rules at their cap>".to_string()))
                        } else {
                            recd.as_ref().and_then(|r| r.rule_debug.clone())
                        };
                        match named {
                            None => fail!(ID, "no-triggered-rule", "no-triggered-rule", case, "step {}: rejection names no rule", si),
                            Some(nm) => {
                                if !blockers.iter().any(|b| *b == nm) {
                                    fail!(ID, "wrong-triggered-rule", "wrong-triggered-rule", case,
                                        "step {}: rejection names {} which is not at its cap; rules at cap: {:?}", si, nm, blockers);
                                }
                                if !msg.contains(&nm) {
                                    fail!(ID, "error-text-omits-rule", "error-text-omits-rule", case, "step {}: Err text does not carry the triggered rule", si);
                                }
                            }
                        }
                        if pattern == 0 && must_reject {
                            pattern = 1;
                        }
                    }
                }
                // invariants on the node
                if let Some(node) = stat::get_resource_node(&res) {
                    let c = node.current_concurrency() as u64;
                    if c != recs.len() as u64 {
                        fail!(ID, "in-flight-mismatch", "in-flight-mismatch", case, "step {}: node in-flight {} but {} entries open", si, c, recs.len());
                    }
                    if let Some(m) = iso_min {
                        if c > m as u64 {
                            fail!(ID, "cap-exceeded", "cap-exceeded", case, "step {}: in-flight {} exceeds isolation threshold {}", si, c, m);
                        }
                    }
                }
                for (ri, (h, _)) in hot_specs.iter().enumerate() {
                    for (v, c) in &inflight[ri] {
                        let t = h.overrides.iter().find(|(k, _)| k == v).map(|(_, t)| *t).unwrap_or(h.threshold);
                        if *c > t {
                            fail!(ID, "value-cap-exceeded", "value-cap-exceeded", case, "step {}: value {:?} has {} in flight, cap {}", si, v, c, t);
                        }
                    }
                }
            }
        }
    }
    drop(open);
    let multi = values_seen.len() >= 2 || active_iso.len() >= 2 || hot_specs.len() >= 2;
    let mut classes = vec![if case.hot.is_empty() { "isolation" } else { "hotspot-concurrency" }];
    if pattern == 3 { classes.push("reject-exit-admit"); }
    classes.push(if case.global_chain { "through-the-global-slot-chain" } else { "through-the-recording-chain" });
    if n_either > 0 { classes.push("batch-in-between-either-accepted"); }
    if case.hot.iter().any(|h| !h.param_key.is_empty()) { classes.push("keyed-parameter"); }
    if case.hot.iter().any(|h| h.param_index < 0) { classes.push("negative-index"); }
    if case.hot.iter().any(|h| !h.overrides.is_empty()) { classes.push("override-table"); }
    Verdict::Pass(CaseReport {
        nontrivial: pattern == 3 && multi,
        classes,
        digest: digest_of(case),
        decoded: if cfg.want_decoded { serde_json::to_value(case).ok() } else { None },
        known_hits: vec![],
        counters: vec![("admissions", n_adm), ("rejections", n_rej)],
    })
}
