//! C15 — concurrent rule updates and entries never deadlock, panic or poison a manager.
use super::common::*;
use super::sched_common::*;
use crate::engine::*;
use crate::sched::{self, ctx};
use crate::util::{self, clock};
use sentinel_core::base::Snapshot;
use sentinel_core::circuitbreaker::{self as cb, State, StateChangeListener};
use sentinel_core::{flow, hotspot, isolation, system};
use serde::{Deserialize, Serialize};
use std::sync::atomic::{AtomicU8, Ordering};
use std::sync::Arc;

pub struct C15;

#[derive(Debug, Clone, Copy, Serialize, Deserialize, PartialEq)]
pub enum MOp {
    LoadAllA,
    LoadAllB,
    LoadRes,
    Append,
    ClearAll,
    ClearRes,
    GetAll,
    GetRes,
    Entry,
    EntryOther,
}

const OPS: [MOp; 10] = [MOp::LoadAllA, MOp::LoadAllB, MOp::LoadRes, MOp::Append, MOp::ClearAll, MOp::ClearRes, MOp::GetAll, MOp::GetRes, MOp::Entry, MOp::EntryOther];

#[derive(Debug, Clone, Serialize, Deserialize)]
pub struct Case {
    /// 0 flow, 1 hotspot, 2 circuit breaker, 3 isolation, 4 system
    pub family: u8,
    /// each thread performs its operations in order
    pub threads: Vec<Vec<MOp>>,
    pub preloaded: bool,
    /// 0 none; 1 breaker listener reading rule lists; 2 breaker listener reading the breaker list (known finding);
    /// 3 custom generator reading its own manager (known finding); 4 custom generator reading another manager
    pub callbacks: u8,
    pub schedule: Vec<(u32, u8)>,
}

pub fn decode(u: &mut Bytes) -> Case {
    let family = u.choice(5) as u8;
    let n = 2 + (u.choice(4) == 3) as usize;
    let threads = (0..n).map(|_| (0..1 + u.choice(2)).map(|_| OPS[u.choice(OPS.len())]).collect()).collect();
    let preloaded = u.bool();
    let callbacks = match (family, u.choice(8)) {
        (2, 0) | (2, 1) => 1,
        (2, 2) => 2,
        (0, 3) | (1, 3) | (2, 3) => 3,
        (0, 4) | (1, 4) | (2, 4) => 4,
        _ => 0,
    };
    let schedule = decode_schedule(u, 5, 200);
    Case { family, threads, preloaded, callbacks, schedule }
}

/// behaviour of the custom generators / listener of this process (set per execution)
static CALLBACK_MODE: AtomicU8 = AtomicU8::new(0);
static CALLBACK_FAMILY: AtomicU8 = AtomicU8::new(0);

fn generator_callback() {
    match CALLBACK_MODE.load(Ordering::SeqCst) {
        3 => match CALLBACK_FAMILY.load(Ordering::SeqCst) {
            0 => {
                let _ = flow::get_rules();
            }
            1 => {
                let _ = hotspot::get_rules();
            }
            _ => {
                let _ = cb::get_rules();
                let _ = cb::get_breakers_of_resource(&"c15-any".to_string());
            }
        },
        4 => {
            let _ = isolation::get_rules();
            let _ = system::get_rules();
        }
        _ => {}
    }
}

struct Listener;
impl Listener {
    fn cb(&self) {
        match CALLBACK_MODE.load(Ordering::SeqCst) {
            1 => {
                let _ = cb::get_rules();
                let _ = cb::get_rules_of_resource(&"c15-any".to_string());
            }
            2 => {
                let _ = cb::get_breakers_of_resource(&"c15-any".to_string());
            }
            _ => {}
        }
    }
}
impl StateChangeListener for Listener {
    fn on_transform_to_closed(&self, _p: State, _r: Arc<cb::Rule>) {
        self.cb()
    }
    fn on_transform_to_open(&self, _p: State, _r: Arc<cb::Rule>, _s: Option<Arc<Snapshot>>) {
        self.cb()
    }
    fn on_transform_to_half_open(&self, _p: State, _r: Arc<cb::Rule>) {
        self.cb()
    }
    fn on_circuit_breaker_drop(&self, _p: State, _r: Arc<cb::Rule>) {
        self.cb()
    }
}

fn register_generators() {
    use std::sync::Once;
    static G: Once = Once::new();
    G.call_once(|| {
        let _ = flow::set_traffic_shaping_generator(
            flow::CalculateStrategy::Custom(9),
            flow::ControlStrategy::Custom(9),
            Box::new(|_rule, _stat| {
                generator_callback();
                Err(sentinel_core::Error::msg("c15 generator builds no controller"))
            }),
        );
        let _ = hotspot::set_traffic_shaping_generator(
            hotspot::ControlStrategy::Custom(9),
            Box::new(|rule, _metric| {
                generator_callback();
                Arc::new(hotspot::Controller::new(rule))
            }),
        );
        let _ = cb::set_circuit_breaker_generator(
            cb::BreakerStrategy::Custom(9),
            Box::new(|rule, _stat| {
                generator_callback();
                Arc::new(cb::ErrorCountBreaker::new(rule))
            }),
        );
    });
}

fn op_name(o: MOp) -> &'static str {
    match o {
        MOp::LoadAllA | MOp::LoadAllB => "load_rules",
        MOp::LoadRes => "load_rules_of_resource",
        MOp::Append => "append_rule",
        MOp::ClearAll => "clear_rules",
        MOp::ClearRes => "clear_rules_of_resource",
        MOp::GetAll => "get_rules",
        MOp::GetRes => "get_rules_of_resource",
        MOp::Entry => "entry",
        MOp::EntryOther => "entry_other_family",
    }
}

/// perform one manager operation of `family` on resource `r` (`custom` = include a rule with a Custom strategy)
fn perform(family: u8, op: MOp, r: &String, other: &String, custom: bool) {
    match family {
        0 => {
            let a = || Arc::new(flow::Rule { resource: r.clone(), threshold: 100.0, ..Default::default() });
            let b = || Arc::new(flow::Rule { resource: r.clone(), threshold: 50.0, stat_interval_ms: 700, ..Default::default() });
            let c = || Arc::new(flow::Rule { resource: r.clone(), threshold: 10.0, calculate_strategy: flow::CalculateStrategy::Custom(9), control_strategy: flow::ControlStrategy::Custom(9), ..Default::default() });
            let o = || Arc::new(flow::Rule { resource: other.clone(), threshold: 5.0, ..Default::default() });
            match op {
                MOp::LoadAllA => {
                    let mut v = vec![a(), o()];
                    if custom { v.push(c()); }
                    flow::load_rules(v);
                }
                MOp::LoadAllB => {
                    let mut v = vec![b()];
                    if custom { v.push(c()); }
                    flow::load_rules(v);
                }
                MOp::LoadRes => {
                    let mut v = vec![a(), b()];
                    if custom { v.push(c()); }
                    let _ = flow::load_rules_of_resource(r, v);
                }
                MOp::Append => {
                    flow::append_rule(if custom { c() } else { b() });
                }
                MOp::ClearAll => flow::clear_rules(),
                MOp::ClearRes => flow::clear_rules_of_resource(r),
                MOp::GetAll => {
                    let _ = flow::get_rules();
                }
                MOp::GetRes => {
                    let _ = flow::get_rules_of_resource(r);
                }
                _ => {}
            }
        }
        1 => {
            let a = || Arc::new(hotspot::Rule { resource: r.clone(), threshold: 100, metric_type: hotspot::MetricType::QPS, duration_in_sec: 1, ..Default::default() });
            let b = || Arc::new(hotspot::Rule { resource: r.clone(), threshold: 100, metric_type: hotspot::MetricType::Concurrency, ..Default::default() });
            let c = || Arc::new(hotspot::Rule { resource: r.clone(), threshold: 100, metric_type: hotspot::MetricType::Concurrency, control_strategy: hotspot::ControlStrategy::Custom(9), param_index: 1, ..Default::default() });
            let o = || Arc::new(hotspot::Rule { resource: other.clone(), threshold: 5, metric_type: hotspot::MetricType::Concurrency, ..Default::default() });
            match op {
                MOp::LoadAllA => {
                    let mut v = vec![a(), o()];
                    if custom { v.push(c()); }
                    hotspot::load_rules(v);
                }
                MOp::LoadAllB => {
                    let mut v = vec![b()];
                    if custom { v.push(c()); }
                    hotspot::load_rules(v);
                }
                MOp::LoadRes => {
                    let mut v = vec![a(), b()];
                    if custom { v.push(c()); }
                    let _ = hotspot::load_rules_of_resource(r, v);
                }
                MOp::Append => {
                    hotspot::append_rule(if custom { c() } else { b() });
                }
                MOp::ClearAll => hotspot::clear_rules(),
                MOp::ClearRes => hotspot::clear_rules_of_resource(r),
                MOp::GetAll => {
                    let _ = hotspot::get_rules();
                }
                MOp::GetRes => {
                    let _ = hotspot::get_rules_of_resource(r);
                }
                _ => {}
            }
        }
        2 => {
            let base = |t: f64, s: cb::BreakerStrategy| Arc::new(cb::Rule { resource: r.clone(), threshold: t, strategy: s, retry_timeout_ms: 1000, stat_interval_ms: 1000, ..Default::default() });
            let a = || base(1.0, cb::BreakerStrategy::ErrorCount);
            let b = || base(0.5, cb::BreakerStrategy::ErrorRatio);
            let c = || base(0.5, cb::BreakerStrategy::Custom(9));
            let o = || Arc::new(cb::Rule { resource: other.clone(), threshold: 5.0, strategy: cb::BreakerStrategy::ErrorCount, retry_timeout_ms: 1000, stat_interval_ms: 1000, ..Default::default() });
            match op {
                MOp::LoadAllA => {
                    let mut v = vec![a(), o()];
                    if custom { v.push(c()); }
                    cb::load_rules(v);
                }
                MOp::LoadAllB => {
                    let mut v = vec![b()];
                    if custom { v.push(c()); }
                    cb::load_rules(v);
                }
                MOp::LoadRes => {
                    let mut v = vec![a(), b()];
                    if custom { v.push(c()); }
                    let _ = cb::load_rules_of_resource(r, v);
                }
                MOp::Append => {
                    cb::append_rule(if custom { c() } else { b() });
                }
                MOp::ClearAll => cb::clear_rules(),
                MOp::ClearRes => cb::clear_rules_of_resource(r),
                MOp::GetAll => {
                    let _ = cb::get_rules();
                }
                MOp::GetRes => {
                    let _ = cb::get_rules_of_resource(r);
                    let _ = cb::get_breakers_of_resource(r);
                }
                _ => {}
            }
        }
        3 => {
            let a = || Arc::new(isolation::Rule { resource: r.clone(), threshold: 100, ..Default::default() });
            let b = || Arc::new(isolation::Rule { resource: r.clone(), threshold: 50, ..Default::default() });
            let o = || Arc::new(isolation::Rule { resource: other.clone(), threshold: 5, ..Default::default() });
            match op {
                MOp::LoadAllA => isolation::load_rules(vec![a(), o()]),
                MOp::LoadAllB => isolation::load_rules(vec![b()]),
                MOp::LoadRes => {
                    let _ = isolation::load_rules_of_resource(r, vec![a(), b()]);
                }
                MOp::Append => {
                    isolation::append_rule(b());
                }
                MOp::ClearAll => isolation::clear_rules(),
                MOp::ClearRes => isolation::clear_rules_of_resource(r),
                MOp::GetAll => {
                    let _ = isolation::get_rules();
                }
                MOp::GetRes => {
                    let _ = isolation::get_rules_of_resource(r);
                }
                _ => {}
            }
        }
        _ => {
            let a = || Arc::new(system::Rule { metric_type: system::MetricType::Concurrency, threshold: 1e9, ..Default::default() });
            let b = || Arc::new(system::Rule { metric_type: system::MetricType::InboundQPS, threshold: 1e9, ..Default::default() });
            match op {
                MOp::LoadAllA | MOp::LoadRes => system::load_rules(vec![a()]),
                MOp::LoadAllB => system::load_rules(vec![a(), b()]),
                MOp::Append => {
                    system::append_rule(b());
                }
                MOp::ClearAll | MOp::ClearRes => system::clear_rules(),
                MOp::GetAll | MOp::GetRes => {
                    let _ = system::get_rules();
                }
                _ => {}
            }
        }
    }
}

fn entry(r: &String, with_error: bool) {
    let mut req = Req::new(r, 1);
    req.inbound = true;
    req.args = Some(vec!["a".into(), "b".into()]);
    if let Ok(e) = build(req) {
        if with_error {
            e.set_err(sentinel_core::Error::msg("biz"));
        }
        e.exit();
    }
}

fn health() -> Result<(), String> {
    let r = std::panic::catch_unwind(|| {
        let o = "c15-health".to_string();
        let _ = flow::get_rules();
        flow::load_rules_of_resource(&o, vec![Arc::new(flow::Rule { resource: o.clone(), threshold: 1.0, ..Default::default() })]).map_err(|e| e.to_string())?;
        flow::clear_rules();
        let _ = hotspot::get_rules();
        hotspot::load_rules_of_resource(&o, vec![Arc::new(hotspot::Rule { resource: o.clone(), threshold: 1, ..Default::default() })]).map_err(|e| e.to_string())?;
        hotspot::clear_rules();
        let _ = cb::get_rules();
        cb::load_rules_of_resource(&o, vec![Arc::new(cb::Rule { resource: o.clone(), threshold: 1.0, retry_timeout_ms: 10, stat_interval_ms: 1000, strategy: cb::BreakerStrategy::ErrorCount, ..Default::default() })]).map_err(|e| e.to_string())?;
        cb::clear_rules();
        let _ = isolation::get_rules();
        isolation::load_rules_of_resource(&o, vec![Arc::new(isolation::Rule { resource: o.clone(), threshold: 1, ..Default::default() })]).map_err(|e| e.to_string())?;
        isolation::clear_rules();
        let _ = system::get_rules();
        system::load_rules(vec![]);
        system::clear_rules();
        entry(&o, false);
        Ok::<(), String>(())
    });
    match r {
        Ok(x) => x,
        Err(_) => Err(format!("a manager call panicked after the scenario: {}", crate::engine::shard::take_last_panic().unwrap_or_default())),
    }
}

fn fam_name(f: u8) -> &'static str {
    ["flow", "hotspot", "breaker", "isolation", "system"][f as usize]
}

fn key_prefix(case: &Case) -> String {
    let mut ops: Vec<&'static str> = case.threads.iter().flatten().map(|o| op_name(*o)).collect();
    ops.sort();
    ops.dedup();
    let cbk = ["no-callback", "listener-reads-rules", "listener-reads-breaker-list", "generator-reads-own-manager", "generator-reads-other-manager"][case.callbacks as usize];
    if case.callbacks == 2 || case.callbacks == 3 {
        // the callback itself is the cause: the signature does not depend on which operations ran
        return format!("C15|{}|{}", fam_name(case.family), cbk);
    }
    format!("C15|{}|{}|{}", fam_name(case.family), cbk, ops.join("+"))
}

pub fn execute(case: &Case, schedule: &[(u32, u8)], bytes_hex: &str) -> Result<sched::RunInfo, (String, String)> {
    warm_up();
    register_generators();
    util::reset_all();
    clock::new_case_epoch();
    let r = util::fresh_name("c15");
    let other = util::fresh_name("c15o");
    CALLBACK_MODE.store(case.callbacks, Ordering::SeqCst);
    CALLBACK_FAMILY.store(case.family, Ordering::SeqCst);
    let custom = case.callbacks >= 3;
    if case.family == 2 && (case.callbacks == 1 || case.callbacks == 2) {
        cb::register_state_change_listeners(vec![Arc::new(Listener)]);
    }
    if case.preloaded {
        // pre-state built without callbacks firing into half-built state
        let m = CALLBACK_MODE.swap(0, Ordering::SeqCst);
        perform(case.family, MOp::LoadAllA, &r, &other, false);
        CALLBACK_MODE.store(m, Ordering::SeqCst);
    }
    let mut bodies: Vec<sched::Body> = Vec::new();
    for ops in &case.threads {
        let ops = ops.clone();
        let (r, other) = (r.clone(), other.clone());
        let family = case.family;
        bodies.push(Box::new(move || {
            for op in ops {
                match op {
                    MOp::Entry => entry(&r, family == 2),
                    MOp::EntryOther => {
                        // cross-family pair through the entry path: another family's manager is updated by this thread
                        perform((family + 1) % 5, MOp::LoadAllA, &r, &other, false);
                        entry(&r, true);
                    }
                    _ => perform(family, op, &r, &other, custom),
                }
            }
        }));
    }
    ctx::set(ctx::FatalCtx { property: "C15", bytes_hex: bytes_hex.to_string(), decoded: serde_json::to_value(case).unwrap(), key_prefix: key_prefix(case), schedule: schedule.to_vec() });
    let info = sched::run(bodies, schedule, 400_000, ctx::on_fatal);
    CALLBACK_MODE.store(0, Ordering::SeqCst);
    if let Some((tid, msg)) = info.panics.first() {
        return Err(("panic".into(), format!("thread {} ({:?}) panicked: {}", tid, case.threads.get(*tid), msg)));
    }
    cb::clear_state_change_listeners();
    health().map_err(|e| ("manager-unusable".to_string(), e))?;
    Ok(info)
}

impl Property for C15 {
    fn id(&self) -> &'static str {
        "C15"
    }
    fn budget(&self, tier: Tier) -> Budget {
        match tier {
            Tier::Quick => Budget { cases: 500, shards: 16, min_len: 12, max_len: 48 },
            Tier::Thorough => Budget { cases: 15_000, shards: 16, min_len: 12, max_len: 48 },
        }
    }
    fn dirty_on_fail(&self) -> bool {
        true
    }
    fn rule(&self) -> String {
        "bytes -> rule family, 2-3 threads each performing 1-2 operations from {load_rules (two variants), load_rules_of_resource, append_rule, clear_rules, clear_rules_of_resource, get_rules, get_rules_of_resource (+ get_breakers_of_resource), entry build/exit on the affected resource, entry while another family's manager is updated}, pre-state empty or one rule set loaded, callbacks (breaker state-change listener reading rule lists; custom generators reading another manager), schedule of up to 5 preemptions; plus (coverage.extra) exhaustive enumeration with <= k preemptions (k = 1 quick, 2 thorough) of every ordered pair of operations of every family; verdicts: deadlock (all unfinished threads blocked), panic in any thread, manager unusable in a sequential health probe afterwards; the two callback shapes that are recorded known findings (listener reading the breaker list; generator reading its own manager) are excluded from exploration by construction (counted) and asserted by committed replays; non-trivial = some thread held >= 2 locks at once and a preemption hit a thread holding a lock; distinct = distinct (scenario, schedule)".into()
    }
    fn assumptions(&self) -> Vec<String> {
        vec![
            "as C14: cooperative scheduler over std sync operations, sequentially consistent, lazy statics forced beforehand, RwLock writer preference modelled (a new read request waits while the lock is held and a writer is parked on it; a recursive read behind a parked writer is therefore a deadlock)".into(),
            "'never blocks forever' is decided as the safety property 'no reachable state in which every unfinished thread is blocked' within the bounded scenarios; a deadlock verdict ends the process (parked threads cannot be unwound)".into(),
        ]
    }
    fn describe(&self, bytes: &[u8]) -> Option<serde_json::Value> {
        serde_json::to_value(decode(&mut Bytes::new(bytes))).ok()
    }
    fn run_decoded(&self, decoded: &serde_json::Value, cfg: &RunCfg) -> Option<Verdict> {
        let case: Case = serde_json::from_value(decoded.clone()).ok()?;
        Some(run_case(case, "", cfg))
    }
    fn run(&self, bytes: &[u8], cfg: &RunCfg) -> Verdict {
        run_case(decode(&mut Bytes::new(bytes)), &util::hex(bytes), cfg)
    }
    fn extra(&self, tier: Tier) -> Option<Result<(u64, serde_json::Value), Failure>> {
        extra_impl(tier)
    }
}

fn run_case(case: Case, hex: &str, cfg: &RunCfg) -> Verdict {
    {
        let mut case = case;
        let mut excluded = 0u64;
        if !cfg.strict && (case.callbacks == 2 || case.callbacks == 3) && std::env::var("VERIF_INCLUDE_KNOWN").is_err() {
            // recorded known findings: excluded by construction so that the search continues; see /verif/replays/C15
            case.callbacks = if case.callbacks == 2 { 1 } else { 4 };
            excluded = 1;
        }
        match execute(&case, &case.schedule, hex) {
            Err((clause, detail)) => Verdict::Fail(Failure { clause: clause.clone(), key: format!("{}|{}", key_prefix(&case), clause), detail, decoded: serde_json::to_value(&case).unwrap() }),
            Ok(info) => {
                let mut classes = vec![fam_name(case.family)];
                if case.callbacks > 0 { classes.push("with-callbacks"); }
                if info.max_locks_held_by_one_thread >= 2 { classes.push("thread-held-2-locks"); }
                if info.preempted_holding_lock > 0 { classes.push("preempted-while-holding-a-lock"); }
                Verdict::Pass(CaseReport {
                    nontrivial: info.max_locks_held_by_one_thread >= 2 && info.preempted_holding_lock > 0,
                    classes,
                    digest: digest_of(&case),
                    decoded: if cfg.want_decoded { serde_json::to_value(&case).ok() } else { None },
                    known_hits: vec![],
                    counters: vec![("schedule_points", info.points as u64), ("known_finding_shapes_excluded_by_construction", excluded)],
                })
            }
        }
    }
}

fn extra_impl(tier: Tier) -> Option<Result<(u64, serde_json::Value), Failure>> {
    {
        let k = if tier == Tier::Quick { 1 } else { 2 };
        let mut runs = 0u64;
        let mut pairs = 0u64;
        let mut all_complete = true;
        for family in 0..5u8 {
            for a in OPS.iter() {
                for b in OPS.iter() {
                    for preloaded in [false, true] {
                        let case = Case { family, threads: vec![vec![*a], vec![*b]], preloaded, callbacks: 0, schedule: vec![] };
                        pairs += 1;
                        let r = sched::enumerate_bounded(k, 200_000, |s| {
                            let mut c = case.clone();
                            c.schedule = s.to_vec();
                            execute(&c, s, "").map_err(|(clause, detail)| Failure { clause: clause.clone(), key: format!("{}|{}", key_prefix(&c), clause), detail, decoded: serde_json::to_value(&c).unwrap() })
                        });
                        match r {
                            Err(f) => return Some(Err(f)),
                            Ok((n, complete)) => {
                                runs += n;
                                all_complete &= complete;
                            }
                        }
                    }
                }
            }
        }
        Some(Ok((runs, serde_json::json!({"exhaustive_subdomain": format!("every ordered pair of the 10 operations x 5 families x (empty | preloaded), all schedules with <= {} preemptions", k), "scenarios": pairs, "executions": runs, "space_exhausted": all_complete}))))
    }
}
