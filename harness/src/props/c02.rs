//! C02 — sliding-window statistics report exactly the events inside the window.
use super::common::*;
use crate::engine::*;
use crate::fail;
use crate::util::{self, clock};
use sentinel_core::base::{MetricEvent, ReadStat, ResourceType, StatNode, WriteStat};
use sentinel_core::stat::verif_export::{BucketLeapArray, SlidingWindowMetric};
use serde::Serialize;
use std::sync::Arc;

pub struct C02;

const KINDS: [MetricEvent; 5] = [
    MetricEvent::Pass,
    MetricEvent::Block,
    MetricEvent::Complete,
    MetricEvent::Error,
    MetricEvent::Rt,
];
const KIND_NAMES: [&str; 5] = ["Pass", "Block", "Complete", "Error", "Rt"];
const MAX_RT: u64 = 60_000;

#[derive(Debug, Clone, Serialize)]
pub enum Op {
    Write { dt: u64, kind: usize, amount: u64 },
    /// read through window `w` (index into `windows`; == windows.len() means the raw ring)
    Read { dt: u64, w: usize },
}

#[derive(Debug, Clone, Serialize)]
pub struct Case {
    /// 0 = ring built directly, 1 = a real resource node (default geometry 20 x 500 ms)
    pub mode: u8,
    pub phase_ms: u64,
    pub ring_count: u32,
    pub ring_bucket_ms: u32,
    /// (sample_count, interval_ms) read windows, valid and invalid ones
    pub windows: Vec<(u32, u32)>,
    /// invalid ring geometries that must be refused
    pub bad_rings: Vec<(u32, u32)>,
    pub ops: Vec<Op>,
}

fn must_refuse_window(sc: u32, iv: u32, n: u32, l: u32) -> bool {
    sc == 0 || iv == 0 || iv % sc != 0 || iv % l != 0 || iv as u64 > n as u64 * l as u64
}

/// windows that tile the ring by every reading of the documentation
fn surely_valid_window(sc: u32, iv: u32, n: u32, l: u32) -> bool {
    let ring = n * l;
    sc != 0 && iv != 0 && iv % sc == 0 && ring % iv == 0 && (iv / sc) % l == 0
}

pub fn decode(u: &mut Bytes) -> Case {
    let mode = if u.choice(4) == 3 { 1 } else { 0 };
    let phase_ms = [0u64, 1, 499, 500, 137, 999, 250, 7][u.choice(8)];
    let (n, l) = if mode == 1 {
        (20u32, 500u32)
    } else {
        (1 + u.choice(20) as u32, [500u32, 1000, 250, 100, 10, 7, 2, 1][u.choice(8)])
    };
    let ring = n * l;
    // constructive enumeration of windows
    let mut windows = Vec::new();
    let nw = 1 + u.choice(3);
    for _ in 0..nw {
        let w = match u.choice(10) {
            // tiling windows: k buckets of the ring, k | n, read as 1 or k samples
            0..=5 => {
                let divs: Vec<u32> = (1..=n).filter(|k| n % k == 0).collect();
                let k = divs[u.choice(divs.len())];
                let iv = k * l;
                let sc_opts: Vec<u32> = (1..=k).filter(|s| k % s == 0).collect();
                (sc_opts[u.choice(sc_opts.len())], iv)
            }
            6 => (0, ring),          // zero count
            7 => (1 + u.choice(3) as u32, 0), // zero interval
            8 => {
                // non-dividing count or interval not a multiple of the ring's bucket
                if u.bool() { (3, ring + 1) } else { (1, l * (1 + u.choice(3) as u32) + if l > 1 { 1 } else { ring } ) }
            }
            _ => (1, ring * 2), // longer than the ring
        };
        windows.push(w);
    }
    let mut bad_rings = Vec::new();
    if u.choice(4) == 0 {
        bad_rings.push((0u32, 1000u32));
        bad_rings.push((3, 1000));
        bad_rings.push((7, 10));
    }
    let nops = 4 + u.choice(60);
    let mut ops = Vec::new();
    let mut rel = phase_ms;
    for _ in 0..nops {
        let l64 = l as u64;
        let ring64 = ring as u64;
        let to_b = l64 - rel % l64;
        let wi = u.choice(windows.len());
        let wiv = windows[wi].1 as u64;
        let dt = match u.choice(16) {
            0 | 1 | 2 => 0,
            3 => 1,
            4 => to_b,
            5 => to_b.saturating_sub(1),
            6 => l64,
            7 => l64 + 1,
            8 => ring64,
            9 => ring64 + 1,
            10 => ring64.saturating_sub(1),
            11 => 2 * ring64 + 3,
            12 => wiv.min(100_000),
            13 => (wiv + 1).min(100_000),
            14 => ring64 - ring64 % l64 + to_b, // exact multiple of the whole interval ahead, on a boundary
            _ => u.range(0, 255) * (1 + l64 / 16),
        };
        rel += dt;
        if u.choice(3) == 2 {
            ops.push(Op::Read { dt, w: u.choice(windows.len() + 1) });
        } else {
            let kind = u.choice(5);
            let amount = if kind == 4 {
                [0u64, 1, 5, 17, 100, 59_999, 60_000, 70_000][u.choice(8)]
            } else {
                u.choice(6) as u64
            };
            ops.push(Op::Write { dt, kind, amount });
        }
    }
    // always end with reads through every reader
    for w in 0..=windows.len() {
        ops.push(Op::Read { dt: if w == 0 { 0 } else { [0u64, 1, l as u64][w % 3] }, w });
    }
    Case { mode, phase_ms, ring_count: n, ring_bucket_ms: l, windows, bad_rings, ops }
}

/// Reference: plain event list + "which bucket does each ring slot currently hold" by definition.
struct Model {
    n: u64,
    l: u64,
    /// (time, kind, amount)
    events: Vec<(u64, usize, u64)>,
    /// slot -> bucket start it holds (the latest written)
    holder: std::collections::HashMap<u64, u64>,
    evictions_with_data: u64,
}

impl Model {
    fn write(&mut self, t: u64, kind: usize, amount: u64) {
        let s = t / self.l * self.l;
        let slot = (t / self.l) % self.n;
        if let Some(old) = self.holder.get(&slot) {
            if *old < s && self.events.iter().any(|(te, _, _)| te / self.l * self.l == *old) {
                self.evictions_with_data += 1;
            }
        }
        self.holder.insert(slot, s);
        self.events.push((t, kind, amount));
    }
    fn live(&self, te: u64) -> bool {
        let s = te / self.l * self.l;
        let slot = (te / self.l) % self.n;
        self.holder.get(&slot) == Some(&s)
    }
    /// events visible to a sliding window (interval iv) ending at t
    fn window(&self, t: u64, iv: u64) -> Vec<(u64, usize, u64)> {
        let end = t / self.l * self.l;
        let lo = (end + self.l).saturating_sub(iv);
        self.events
            .iter()
            .filter(|(te, _, _)| {
                let s = te / self.l * self.l;
                s >= lo && s <= end && self.live(*te) && !(t > s && t - s > self.n * self.l)
            })
            .cloned()
            .collect()
    }
    /// raw ring, closed window: bucket start in [t - ring interval, t]
    fn raw(&self, t: u64) -> Vec<(u64, usize, u64)> {
        self.events
            .iter()
            .filter(|(te, _, _)| {
                let s = te / self.l * self.l;
                self.live(*te) && !(t > s && t - s > self.n * self.l)
            })
            .cloned()
            .collect()
    }
}

fn sum_kind(evs: &[(u64, usize, u64)], k: usize) -> u64 {
    evs.iter().filter(|e| e.1 == k).map(|e| e.2).sum()
}

fn min_rt(evs: &[(u64, usize, u64)]) -> u64 {
    evs.iter().filter(|e| e.1 == 4).map(|e| e.2).min().unwrap_or(MAX_RT).min(MAX_RT)
}

fn feq(a: f64, b: f64) -> bool {
    (a - b).abs() <= 1e-9 * a.abs().max(b.abs()).max(1.0)
}

impl Property for C02 {
    fn id(&self) -> &'static str {
        "C02"
    }
    fn budget(&self, tier: Tier) -> Budget {
        match tier {
            Tier::Quick => Budget { cases: 18_000, shards: 16, min_len: 24, max_len: 280 },
            Tier::Thorough => Budget { cases: 150_000, shards: 16, min_len: 24, max_len: 280 },
        }
    }
    fn fuzz_targets(&self) -> Vec<(&'static str, u64, usize)> {
        vec![("prop", 400_000, 280)]
    }
    fn rule(&self) -> String {
        "bytes -> ring (1..20 buckets x {1,2,7,10,100,250,500,1000} ms, or a real resource node 20x500), 1-3 read windows constructed to tile the ring (k | n buckets, s | k samples) or to be must-refuse (zero count, zero interval, non-dividing, not a multiple of the ring bucket, longer than the ring), invalid ring geometries, 4-64 ops write(dt, kind in Pass/Block/Complete/Error/Rt, amount) / read(dt, reader) with dt from a boundary menu; every read compares sum/qps/qps_previous/avg_rt/min_rt (and raw ring count/min_rt) for all five kinds with a definitional event-list model; non-trivial = a write evicted a bucket that held data (ring wrapped) and some read saw some but not all recorded events; distinct = distinct decoded cases".into()
    }
    fn assumptions(&self) -> Vec<String> {
        vec![
            "hook exports of LeapArray/BucketLeapArray/SlidingWindowMetric (sentinel_verif) and the virtual clock for the *_now readers".into(),
            "timestamps non-decreasing; bucket length >= 1 ms (LeapArray::new(n, 0) is outside the quantifier)".into(),
            "windows that are neither must-refuse nor tile by every reading (bucket not a multiple of the ring bucket, ring interval not a multiple of the window) may be refused or accepted; if accepted they must count exactly".into(),
            "float results compared with relative tolerance 1e-9".into(),
        ]
    }
    fn run(&self, bytes: &[u8], cfg: &RunCfg) -> Verdict {
        let mut u = Bytes::new(bytes);
        let case = decode(&mut u);
        run_case(&case, cfg)
    }
}

enum Reader {
    Window(Arc<dyn ReadStat>, Option<Arc<SlidingWindowMetric>>, u64, u64), // reader, concrete, sample_count, interval
    Raw,
    Refused,
}

pub fn run_case(case: &Case, cfg: &RunCfg) -> Verdict {
    const ID: &str = "C02";
    util::reset_all();
    let t0 = clock::new_case_epoch() + case.phase_ms;
    clock::set_ms(t0);
    let (n, l) = (case.ring_count, case.ring_bucket_ms);

    for (bn, bi) in &case.bad_rings {
        if BucketLeapArray::new(*bn, *bi).is_ok() {
            fail!(ID, "bad-ring-accepted", "bad-ring-accepted", case, "LeapArray::new({}, {}) was accepted", bn, bi);
        }
    }
    // build ring / node
    let ring: Option<Arc<BucketLeapArray>>;
    let node;
    if case.mode == 0 {
        ring = match BucketLeapArray::new(n, n * l) {
            Ok(r) => Some(Arc::new(r)),
            Err(e) => fail!(ID, "valid-ring-refused", "valid-ring-refused", case, "LeapArray::new({}, {}) refused: {}", n, n * l, e),
        };
        node = None;
    } else {
        ring = None;
        node = Some(sentinel_core::stat::get_or_create_resource_node(&util::fresh_name("c02"), &ResourceType::Common));
    }
    let mut readers: Vec<Reader> = Vec::new();
    let (mut refused, mut accepted_amb) = (0u64, 0u64);
    for (sc, iv) in &case.windows {
        let r: Result<Reader, String> = if let Some(ring) = &ring {
            SlidingWindowMetric::new(*sc, *iv, ring.clone())
                .map(|m| {
                    let m = Arc::new(m);
                    Reader::Window(m.clone() as Arc<dyn ReadStat>, Some(m), *sc as u64, *iv as u64)
                })
                .map_err(|e| e.to_string())
        } else {
            node.as_ref()
                .unwrap()
                .generate_read_stat(*sc, *iv)
                .map(|m| Reader::Window(m, None, *sc as u64, *iv as u64))
                .map_err(|e| e.to_string())
        };
        match r {
            Ok(rd) => {
                if must_refuse_window(*sc, *iv, n, l) {
                    fail!(ID, "unservable-window-accepted", "unservable-window-accepted", case,
                        "window (samples {}, interval {}) over ring {} x {} ms was accepted", sc, iv, n, l);
                }
                if !surely_valid_window(*sc, *iv, n, l) {
                    accepted_amb += 1;
                }
                readers.push(rd);
            }
            Err(e) => {
                if surely_valid_window(*sc, *iv, n, l) {
                    fail!(ID, "tiling-window-refused", "tiling-window-refused", case,
                        "window (samples {}, interval {}) tiles ring {} x {} ms but was refused: {}", sc, iv, n, l, e);
                }
                refused += 1;
                readers.push(Reader::Refused);
            }
        }
    }
    readers.push(Reader::Raw);

    let mut model = Model { n: n as u64, l: l as u64, events: vec![], holder: Default::default(), evictions_with_data: 0 };
    let mut partial_reads = 0u64;
    let mut reads = 0u64;
    let mut boundary_reads = 0u64;
    let mut expired_reads = 0u64;

    for (oi, op) in case.ops.iter().enumerate() {
        match op {
            Op::Write { dt, kind, amount } => {
                clock::advance_ms(*dt);
                let t = clock::now_ms();
                if let Some(ring) = &ring {
                    if let Err(e) = ring.add_count_with_time(t, KINDS[*kind], *amount) {
                        fail!(ID, "write-failed", "write-failed", case, "op {}: add_count_with_time({}) failed: {}", oi, t - t0, e);
                    }
                } else {
                    node.as_ref().unwrap().add_count(KINDS[*kind], *amount);
                }
                model.write(t, *kind, *amount);
            }
            Op::Read { dt, w } => {
                clock::advance_ms(*dt);
                let t = clock::now_ms();
                let total: u64 = model.events.len() as u64;
                match &readers[*w % readers.len()] {
                    Reader::Refused => {}
                    Reader::Raw => {
                        let evs = model.raw(t);
                        reads += 1;
                        if (evs.len() as u64) < total && !evs.is_empty() {
                            partial_reads += 1;
                        }
                        if let Some(ring) = &ring {
                            for k in 0..5 {
                                let want = sum_kind(&evs, k);
                                let got = ring.count_with_time(t, KINDS[k]);
                                let got_now = ring.count(KINDS[k]);
                                if got != want || got_now != want {
                                    fail!(ID, "raw-count-mismatch", format!("raw-count-mismatch|{}", KIND_NAMES[k]), case,
                                        "op {} t=+{}: raw ring count({}) = {} / now-reader {} but the events in the closed window sum to {}", oi, t - t0, KIND_NAMES[k], got, got_now, want);
                                }
                            }
                            let want = min_rt(&evs);
                            let got = ring.min_rt();
                            if got != want {
                                fail!(ID, "raw-min-rt-mismatch", "raw-min-rt-mismatch", case, "op {} t=+{}: raw ring min_rt {} expected {}", oi, t - t0, got, want);
                            }
                        }
                    }
                    Reader::Window(rd, concrete, sc, iv) => {
                        let evs = model.window(t, *iv);
                        reads += 1;
                        if (evs.len() as u64) < total && !evs.is_empty() {
                            partial_reads += 1;
                        }
                        if t % (l as u64) == 0 {
                            boundary_reads += 1;
                        }
                        if total > 0 && model.raw(t).is_empty() {
                            expired_reads += 1;
                        }
                        let secs = *iv as f64 / 1000.0;
                        for k in 0..5 {
                            let want = sum_kind(&evs, k);
                            let got = rd.sum(KINDS[k]);
                            if got != want {
                                fail!(ID, "window-sum-mismatch", format!("window-sum-mismatch|{}", KIND_NAMES[k]), case,
                                    "op {} t=+{}: window({},{}) sum({}) = {} but events inside the window sum to {}", oi, t - t0, sc, iv, KIND_NAMES[k], got, want);
                            }
                            let q = rd.qps(KINDS[k]);
                            if !feq(q, want as f64 / secs) {
                                fail!(ID, "window-qps-mismatch", format!("window-qps-mismatch|{}", KIND_NAMES[k]), case,
                                    "op {} t=+{}: window({},{}) qps({}) = {} expected {}", oi, t - t0, sc, iv, KIND_NAMES[k], q, want as f64 / secs);
                            }
                            if let Some(c) = concrete {
                                let g2 = c.sum_with_time(t, KINDS[k]);
                                let q2 = c.qps_with_time(t, KINDS[k]);
                                if g2 != want || !feq(q2, want as f64 / secs) {
                                    fail!(ID, "window-sum-with-time-mismatch", format!("window-sum-with-time-mismatch|{}", KIND_NAMES[k]), case,
                                        "op {} t=+{}: sum_with_time = {}, qps_with_time = {}, expected {}", oi, t - t0, g2, q2, want);
                                }
                            }
                            // previous window: the one ending one (own) bucket earlier
                            let own_bucket = *iv / *sc;
                            let prev = model.window(t - own_bucket, *iv);
                            let wantp = sum_kind(&prev, k) as f64 / secs;
                            let gotp = rd.qps_previous(KINDS[k]);
                            if !feq(gotp, wantp) {
                                fail!(ID, "window-qps-previous-mismatch", format!("window-qps-previous-mismatch|{}", KIND_NAMES[k]), case,
                                    "op {} t=+{}: window({},{}) qps_previous({}) = {} expected {}", oi, t - t0, sc, iv, KIND_NAMES[k], gotp, wantp);
                            }
                        }
                        let comp = sum_kind(&evs, 2);
                        let want_avg = if comp == 0 { 0.0 } else { sum_kind(&evs, 4) as f64 / comp as f64 };
                        let got_avg = rd.avg_rt();
                        if !feq(got_avg, want_avg) {
                            fail!(ID, "avg-rt-mismatch", "avg-rt-mismatch", case, "op {} t=+{}: window({},{}) avg_rt {} expected {}", oi, t - t0, sc, iv, got_avg, want_avg);
                        }
                        let want_min = min_rt(&evs) as f64;
                        let got_min = rd.min_rt();
                        if !feq(got_min, want_min) {
                            fail!(ID, "min-rt-mismatch", "min-rt-mismatch", case, "op {} t=+{}: window({},{}) min_rt {} expected {}", oi, t - t0, sc, iv, got_min, want_min);
                        }
                    }
                }
                // the node's own default metric (2 x 500 ms over 1 s) is a reader too
                if let Some(node) = &node {
                    let evs = model.window(t, 1000);
                    for k in 0..5 {
                        let want = sum_kind(&evs, k);
                        let got = node.sum(KINDS[k]);
                        if got != want || !feq(node.qps(KINDS[k]), want as f64) {
                            fail!(ID, "node-default-metric-mismatch", format!("node-default-metric-mismatch|{}", KIND_NAMES[k]), case,
                                "op {} t=+{}: node.sum({}) = {} expected {}", oi, t - t0, KIND_NAMES[k], got, want);
                        }
                    }
                    let comp = sum_kind(&evs, 2);
                    let want_avg = if comp == 0 { 0.0 } else { sum_kind(&evs, 4) as f64 / comp as f64 };
                    if !feq(node.avg_rt(), want_avg) || !feq(node.min_rt(), min_rt(&evs) as f64) {
                        fail!(ID, "node-default-metric-mismatch", "node-default-metric-mismatch|rt", case,
                            "op {} t=+{}: node avg_rt {} / min_rt {} expected {} / {}", oi, t - t0, node.avg_rt(), node.min_rt(), want_avg, min_rt(&evs));
                    }
                }
            }
        }
    }
    let mut classes = Vec::new();
    if case.mode == 1 { classes.push("real-resource-node"); } else { classes.push("direct-ring"); }
    if refused > 0 { classes.push("refused-window"); }
    if accepted_amb > 0 { classes.push("accepted-non-canonical-window"); }
    if boundary_reads > 0 { classes.push("read-exactly-on-bucket-boundary"); }
    if expired_reads > 0 { classes.push("read-after-full-expiry"); }
    if model.evictions_with_data > 0 { classes.push("ring-wrapped"); }
    if case.windows.iter().any(|(_, iv)| (*iv as u64) < n as u64 * l as u64 && *iv > 0) { classes.push("window-shorter-than-ring"); }
    if !case.bad_rings.is_empty() { classes.push("invalid-ring-geometries"); }
    let nontrivial = model.evictions_with_data > 0 && partial_reads > 0;
    Verdict::Pass(CaseReport {
        nontrivial,
        classes,
        digest: digest_of(case),
        decoded: if cfg.want_decoded { serde_json::to_value(case).ok() } else { None },
        known_hits: vec![],
        counters: vec![("reads", reads), ("partial_reads", partial_reads)],
    })
}
