//! C17 — accepted configuration is usable and is the same for every thread.
use super::common::*;
use crate::engine::*;
use crate::util::{self, clock};
use sentinel_core::base::{MetricEvent, ReadStat, StatNode};
use sentinel_core::config::{self, ConfigEntity};
use sentinel_core::stat;
use serde::Serialize;

pub struct C17;

pub const SCT: [u32; 7] = [20, 0, 1, 2, 3, 7, 10];
pub const IMT: [u32; 7] = [10000, 0, 1, 999, 1000, 3000, 10001];
pub const SC: [u32; 5] = [2, 0, 1, 3, 4];
pub const IM: [u32; 7] = [1000, 0, 1, 500, 1500, 2000, 10000];

#[derive(Debug, Clone, Serialize)]
pub struct Case {
    pub sample_count_total: u32,
    pub interval_ms_total: u32,
    pub sample_count: u32,
    pub interval_ms: u32,
    pub yaml: bool,
    pub phase_ms: u64,
}

pub fn decode(u: &mut Bytes) -> Case {
    Case {
        sample_count_total: SCT[u.choice(7)],
        interval_ms_total: IMT[u.choice(7)],
        sample_count: SC[u.choice(5)],
        interval_ms: IM[u.choice(7)],
        yaml: u.bool(),
        phase_ms: [0u64, 1, 499, 137, 999][u.choice(5)],
    }
}

fn entity(c: &Case) -> ConfigEntity {
    let mut e = ConfigEntity::new();
    e.config.use_cache_time = false;
    e.config.log.metric.flush_interval_sec = 0;
    e.config.stat.system.system_interval_ms = 0;
    e.config.stat.system.load_interval_ms = 0;
    e.config.stat.system.cpu_interval_ms = 0;
    e.config.stat.system.memory_interval_ms = 0;
    e.config.stat.sample_count_total = c.sample_count_total;
    e.config.stat.interval_ms_total = c.interval_ms_total;
    e.config.stat.sample_count = c.sample_count;
    e.config.stat.interval_ms = c.interval_ms;
    e
}

/// the statement's two directions
fn must_refuse(c: &Case) -> bool {
    let (n, it, sc, iv) = (c.sample_count_total, c.interval_ms_total, c.sample_count, c.interval_ms);
    if n == 0 || it == 0 || it % n != 0 {
        return true; // the global window itself cannot exist
    }
    let l = it / n;
    sc == 0 || iv == 0 || iv % sc != 0 || iv % l != 0 || iv > it
}

fn must_accept(c: &Case) -> bool {
    let (n, it, sc, iv) = (c.sample_count_total, c.interval_ms_total, c.sample_count, c.interval_ms);
    if n == 0 || it == 0 || it % n != 0 || sc == 0 || iv == 0 || iv % sc != 0 {
        return false;
    }
    let l = it / n;
    it % iv == 0 && (iv / sc) % l == 0
}

#[derive(Debug, PartialEq, Clone)]
struct Seen {
    getters: (u32, u32, u32, u32),
    geometry: (u32, u32, u32, u32),
}

/// touch a fresh resource on the current thread and observe configuration + window behaviour
fn observe(c: &Case, res: String, t0: u64) -> Result<Seen, String> {
    let getters = (
        config::global_stat_sample_count_total(),
        config::global_stat_interval_ms_total(),
        config::metric_stat_sample_count(),
        config::metric_stat_interval_ms(),
    );
    clock::set_ms(t0);
    let e = build(Req::new(&res, 1)).map_err(|m| format!("entry blocked without rules: {}", m))?;
    e.exit();
    let node = stat::get_resource_node(&res).ok_or("no node after an entry")?;
    let geometry = node.verif_geometry();
    // window behaviour as configured
    let l = (c.interval_ms_total / c.sample_count_total) as u64;
    let s_t = t0 / l * l;
    let iv = c.interval_ms as u64;
    let it = c.interval_ms_total as u64;
    let full = node
        .generate_read_stat(c.sample_count_total, c.interval_ms_total)
        .map_err(|e| format!("read stat over the full configured ring refused: {}", e))?;
    let probes: [(u64, bool, bool); 5] = [
        (t0, true, true),
        (s_t + iv - 1, true, true),
        (s_t + iv, false, iv < it),
        (s_t + it - 1, iv == it, true),
        (s_t + it, false, false),
    ];
    for (now, in_default, in_full) in probes {
        if now < t0 {
            continue;
        }
        clock::set_ms(now);
        let d = node.sum(MetricEvent::Pass);
        if (d == 1) != in_default || d > 1 {
            return Err(format!(
                "default metric ({} x {} ms over ring {} x {} ms): pass recorded at +0 reads {} at +{} ms, expected {}",
                c.sample_count, c.interval_ms, c.sample_count_total, c.interval_ms_total, d, now - t0, in_default as u8
            ));
        }
        let f = full.sum(MetricEvent::Pass);
        if (f == 1) != in_full || f > 1 {
            return Err(format!(
                "full ring ({} x {} ms): pass recorded at +0 reads {} at +{} ms, expected {}",
                c.sample_count_total, c.interval_ms_total, f, now - t0, in_full as u8
            ));
        }
    }
    Ok(Seen { getters, geometry })
}

/// A thread that lives as long as the process: it has read the configuration under every earlier case, so whatever a
/// thread may keep of an old configuration (a per-thread snapshot, a cached geometry) is in it when the next one is installed.
struct Veteran {
    tx: std::sync::Mutex<std::sync::mpsc::Sender<Box<dyn FnOnce() + Send>>>,
}

fn veteran() -> &'static Veteran {
    static V: std::sync::OnceLock<Veteran> = std::sync::OnceLock::new();
    V.get_or_init(|| {
        let (tx, rx) = std::sync::mpsc::channel::<Box<dyn FnOnce() + Send>>();
        std::thread::spawn(move || {
            for job in rx {
                job();
            }
        });
        Veteran { tx: std::sync::Mutex::new(tx) }
    })
}

/// run `f` on the veteran thread and wait for its answer (None if it panicked)
fn on_veteran<T: Send + 'static>(f: impl FnOnce() -> T + Send + 'static) -> Option<T> {
    let (rtx, rrx) = std::sync::mpsc::channel();
    let job: Box<dyn FnOnce() + Send> = Box::new(move || {
        let r = std::panic::catch_unwind(std::panic::AssertUnwindSafe(f)).ok();
        let _ = rtx.send(r);
    });
    veteran().tx.lock().unwrap().send(job).ok()?;
    rrx.recv().ok().flatten()
}

fn read_getters() -> (u32, u32, u32, u32) {
    (config::global_stat_sample_count_total(), config::global_stat_interval_ms_total(), config::metric_stat_sample_count(), config::metric_stat_interval_ms())
}

pub fn judge(c: &Case, tmp_dir: &str) -> Result<(bool, &'static str), (String, String)> {
    util::reset_all();
    let t0 = clock::new_case_epoch() + c.phase_ms;
    let ent = entity(c);
    let accepted_by_check = ent.check().is_ok();
    let before = (
        config::global_stat_sample_count_total(),
        config::global_stat_interval_ms_total(),
        config::metric_stat_sample_count(),
        config::metric_stat_interval_ms(),
    );
    // the veteran thread reads the configuration in effect before the new one is given (and touches a resource under it)
    let vet_before = on_veteran(|| {
        let g = read_getters();
        let name = util::fresh_name("c17v0");
        if let Ok(e) = build(Req::new(&name, 1)) {
            e.exit();
        }
        g
    });
    if vet_before != Some(before) {
        return Err(("configuration-differs-across-threads".into(), format!("before initialisation this thread sees {:?}, a long-lived thread {:?}", before, vet_before)));
    }
    let r = if c.yaml {
        let text = serde_yaml::to_string(&ent).map_err(|e| ("yaml-serialize".to_string(), e.to_string()))?;
        let path = format!("{}/c17-{}-{}.yaml", tmp_dir, std::process::id(), util::fresh_name("cfg"));
        std::fs::write(&path, text).map_err(|e| ("tmp-write".to_string(), e.to_string()))?;
        let r = sentinel_core::api::init_with_config_file(path.clone());
        let _ = std::fs::remove_file(&path);
        r
    } else {
        sentinel_core::api::init_with_config(ent)
    };
    let accepted = r.is_ok();
    if accepted != accepted_by_check {
        return Err(("check-and-init-disagree".into(), format!("check() says {}, initialisation says {}", accepted_by_check, accepted)));
    }
    if accepted && must_refuse(c) {
        return Err(("unservable-configuration-accepted".into(), format!("{:?} accepted", c)));
    }
    if !accepted && must_accept(c) {
        return Err(("servable-configuration-refused".into(), format!("{:?} refused: {:?}", c, r.err().map(|e| e.to_string()))));
    }
    if !accepted {
        // a rejected configuration must not be in effect: the getters still answer what they answered
        // before, on this thread and on another one, and a fresh resource still works
        let after = (
            config::global_stat_sample_count_total(),
            config::global_stat_interval_ms_total(),
            config::metric_stat_sample_count(),
            config::metric_stat_interval_ms(),
        );
        let there = std::thread::spawn(|| {
            (
                config::global_stat_sample_count_total(),
                config::global_stat_interval_ms_total(),
                config::metric_stat_sample_count(),
                config::metric_stat_interval_ms(),
            )
        })
        .join()
        .map_err(|_| ("panic-on-other-thread".to_string(), "reading the configuration panicked".to_string()))?;
        let vet = on_veteran(read_getters);
        if after != before || there != before || vet != Some(before) {
            return Err(("rejected-configuration-in-effect".into(), format!("{:?} was rejected, yet the configuration in effect changed from {:?} to {:?} (new thread: {:?}, long-lived thread: {:?})", c, before, after, there, vet)));
        }
        let name = util::fresh_name("c17r");
        let e = build(Req::new(&name, 1)).map_err(|m| ("entry-blocked-after-rejected-configuration".to_string(), m))?;
        e.exit();
        return Ok((false, "refused"));
    }
    let want = (c.sample_count_total, c.interval_ms_total, c.sample_count, c.interval_ms);
    let here = observe(c, util::fresh_name("c17a"), t0).map_err(|e| ("accepted-configuration-unusable".to_string(), format!("initialising thread: {}", e)))?;
    let c2 = c.clone();
    let name = util::fresh_name("c17b");
    let t1 = t0 + 3 * c.interval_ms_total as u64 + 1000;
    let there = std::thread::spawn(move || observe(&c2, name, t1))
        .join()
        .map_err(|_| ("panic-on-other-thread".to_string(), "a resource first touched on another thread panicked".to_string()))?
        .map_err(|e| ("configuration-differs-across-threads".to_string(), format!("other thread: {}", e)))?;
    if here.getters != want || here.geometry != want {
        return Err(("configuration-not-in-effect".into(), format!("initialising thread sees getters {:?} geometry {:?}, configured {:?}", here.getters, here.geometry, want)));
    }
    if there != here {
        return Err(("configuration-differs-across-threads".into(), format!("initialising thread {:?}, other thread {:?}", here, there)));
    }
    // a thread that was already running (and had read the previous configuration) when this one was installed
    let c3 = c.clone();
    let name = util::fresh_name("c17v");
    let t2 = t1 + 3 * c.interval_ms_total as u64 + 1000;
    let vet = on_veteran(move || observe(&c3, name, t2))
        .ok_or(("panic-on-other-thread".to_string(), "a resource first touched on a long-lived thread panicked".to_string()))?
        .map_err(|e| ("configuration-differs-across-threads".to_string(), format!("long-lived thread (running since before the initialisation): {}", e)))?;
    if vet != here {
        return Err(("configuration-differs-across-threads".into(), format!("initialising thread {:?}, a thread running since before the initialisation {:?}", here, vet)));
    }
    Ok((true, if want == (20, 10000, 2, 1000) { "accepted-default" } else { "accepted-non-default" }))
}

fn restore_default() {
    let mut e = ConfigEntity::new();
    e.config.use_cache_time = false;
    e.config.log.metric.flush_interval_sec = 0;
    e.config.stat.system.system_interval_ms = 0;
    e.config.stat.system.load_interval_ms = 0;
    e.config.stat.system.cpu_interval_ms = 0;
    e.config.stat.system.memory_interval_ms = 0;
    config::reset_global_config(e);
}

fn tmp_dir() -> String {
    let d = format!("/verif/out/c17-tmp-{}", std::process::id());
    let _ = std::fs::create_dir_all(&d);
    d
}

impl Property for C17 {
    fn id(&self) -> &'static str {
        "C17"
    }
    fn budget(&self, tier: Tier) -> Budget {
        match tier {
            Tier::Quick => Budget { cases: 800, shards: 16, min_len: 6, max_len: 12 },
            Tier::Thorough => Budget { cases: 8000, shards: 16, min_len: 6, max_len: 12 },
        }
    }
    fn dirty_on_fail(&self) -> bool {
        true
    }
    fn fuzz_targets(&self) -> Vec<(&'static str, u64, usize)> {
        vec![("parse_yaml", 1_000_000, 600)]
    }
    fn rule(&self) -> String {
        "grid {20,0,1,2,3,7,10} x {10000,0,1,999,1000,3000,10001} x {2,0,1,3,4} x {1000,0,1,500,1500,2000,10000} of (sample_count_total, interval_ms_total, sample_count, interval_ms): all 1715 points enumerated exhaustively as ConfigEntity (coverage.extra) and generated points given as entity or as YAML text through init_with_config_file, with a generated bucket phase; collectors, ticker and metric log disabled; oracle: accepted <=> check() accepts; must-refuse (global window cannot exist, or the default window does not tile it) / must-accept (canonical tiling) predicates from the statement; a rejected configuration leaves the configuration in effect unchanged (this thread, a new one, the long-lived one) and entries still work; after acceptance a resource first touched on the initialising thread, one first touched on a new thread and one first touched on a long-lived thread that had read every earlier configuration of the process all work (entry, exit) and show the configured geometry (config getters, node geometry accessor, and window behaviour under the virtual clock: a pass at +0 is visible in the default metric until its bucket leaves interval_ms and in a full-ring read stat until interval_ms_total); non-trivial = accepted non-default geometry, or a refused point; distinct = distinct decoded cases".into()
    }
    fn assumptions(&self) -> Vec<String> {
        vec![
            "several configurations are initialised one after another in one process (only fresh resources are touched, the inbound node is not used); the first failure ends the shard".into(),
            "virtual clock; hook accessor ResourceNode::verif_geometry as a cross-check".into(),
        ]
    }
    fn describe(&self, bytes: &[u8]) -> Option<serde_json::Value> {
        serde_json::to_value(decode(&mut Bytes::new(bytes))).ok()
    }
    fn run(&self, bytes: &[u8], cfg: &RunCfg) -> Verdict {
        let mut u = Bytes::new(bytes);
        let case = decode(&mut u);
        let dir = tmp_dir();
        let r = judge(&case, &dir);
        restore_default();
        let _ = std::fs::remove_dir(&dir);
        match r {
            Err((clause, detail)) => Verdict::Fail(Failure { clause: clause.clone(), key: format!("C17|{}", clause), detail, decoded: serde_json::to_value(&case).unwrap() }),
            Ok((accepted, class)) => Verdict::Pass(CaseReport {
                nontrivial: !accepted || class == "accepted-non-default",
                classes: vec![class, if case.yaml { "yaml" } else { "entity" }],
                digest: digest_of(&case),
                decoded: if cfg.want_decoded { serde_json::to_value(&case).ok() } else { None },
                known_hits: vec![],
                counters: vec![],
            }),
        }
    }
    fn extra(&self, _tier: Tier) -> Option<Result<(u64, serde_json::Value), Failure>> {
        let dir = tmp_dir();
        let (mut n, mut acc, mut refused) = (0u64, 0u64, 0u64);
        for a in SCT {
            for b in IMT {
                for c in SC {
                    for d in IM {
                        let case = Case { sample_count_total: a, interval_ms_total: b, sample_count: c, interval_ms: d, yaml: false, phase_ms: 0 };
                        n += 1;
                        let r = std::panic::catch_unwind(|| judge(&case, &dir));
                        restore_default();
                        match r {
                            Err(_) => {
                                let msg = crate::engine::shard::take_last_panic().unwrap_or_default();
                                return Some(Err(Failure { clause: "panic".into(), key: "C17|panic|accepted-configuration".into(), detail: msg, decoded: serde_json::to_value(&case).unwrap() }));
                            }
                            Ok(Err((clause, detail))) => {
                                return Some(Err(Failure { clause: clause.clone(), key: format!("C17|{}", clause), detail, decoded: serde_json::to_value(&case).unwrap() }));
                            }
                            Ok(Ok((true, _))) => acc += 1,
                            Ok(Ok((false, _))) => refused += 1,
                        }
                    }
                }
            }
        }
        let _ = std::fs::remove_dir(&dir);
        Some(Ok((n, serde_json::json!({"exhaustive_subdomain": "all 1715 grid points as ConfigEntity", "points": n, "accepted": acc, "refused": refused, "exhaustive": true}))))
    }
}
