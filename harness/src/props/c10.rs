//! C10 — rule managers hold and enforce exactly the valid rules last given, incl. appends.
use super::common::*;
use crate::engine::*;
use crate::util::{self, clock};
use sentinel_core::{circuitbreaker as cb, flow, hotspot, isolation, system};
use serde::Serialize;
use std::fmt::Debug;
use std::sync::Arc;

pub struct C10;

#[derive(Debug, Clone, Serialize)]
pub enum Op {
    LoadAll(Vec<usize>),
    LoadRes(usize, Vec<usize>),
    Append(usize),
    ClearAll,
    ClearRes(usize),
    Get,
}

#[derive(Debug, Clone, Serialize)]
pub struct Case {
    /// 0 flow, 1 isolation, 2 hotspot, 3 circuit breaker, 4 system
    pub family: u8,
    pub nres: usize,
    pub ops: Vec<Op>,
}

/// pool layout per resource: 3 valid rules (thresholds 1,2,3), 1 twin of the first (equal, other id), 2 invalid
pub const PER_RES: usize = 6;

pub fn decode(u: &mut Bytes) -> Case {
    let family = u.choice(5) as u8;
    let nres = if family == 4 { 1 } else { 2 + u.choice(2) };
    let pool = nres * PER_RES + 1; // + one invalid rule with an empty resource name
    let n = 2 + u.choice(11);
    let mut ops = Vec::new();
    for _ in 0..n {
        let k = u.choice(12);
        let op = match k {
            0..=2 => {
                let c = u.choice(5);
                Op::LoadAll((0..c).map(|_| u.choice(pool)).collect())
            }
            3..=4 if family != 4 => {
                let r = u.choice(nres);
                let c = u.choice(4);
                Op::LoadRes(r, (0..c).map(|_| r * PER_RES + u.choice(PER_RES)).collect())
            }
            5..=8 => Op::Append(u.choice(pool)),
            9 => Op::ClearAll,
            10 if family != 4 => Op::ClearRes(u.choice(nres)),
            _ => Op::Get,
        };
        ops.push(op);
    }
    Case { family, nres, ops }
}

/// What the interpreter needs from a rule family.
pub trait Fam {
    type R: Debug + PartialEq + Send + Sync + 'static;
    const NAME: &'static str;
    const HAS_RES_OPS: bool = true;
    /// build pool entry `slot` (0..PER_RES) for resource `res`; returns (rule, valid)
    fn make(res: &str, slot: usize) -> (Self::R, bool);
    fn make_empty_res() -> Self::R;
    fn load(rs: Vec<Arc<Self::R>>) -> Option<bool>;
    fn load_res(_res: &String, _rs: Vec<Arc<Self::R>>) -> Result<bool, String> {
        unreachable!()
    }
    fn append(r: Arc<Self::R>) -> bool;
    fn clear();
    fn clear_res(_res: &String) {}
    fn get() -> Vec<Arc<Self::R>>;
    fn get_res(_res: &String) -> Vec<Arc<Self::R>> {
        vec![]
    }
    /// rules bound to the enforcing objects (controllers / breakers) of a resource, if observable
    fn enforced(_res: &String) -> Option<Vec<Arc<Self::R>>> {
        None
    }
    /// enforcement probe after every operation: Err(text) when a decision contradicts the model's valid
    /// rules of the resource (`slots` = their pool slots, 0..PER_RES)
    fn probe(_res: &String, _slots: &[usize]) -> Result<(), String> {
        Ok(())
    }
    /// enforcement probe that changes long-lived state (breaker opens): run once, after the last operation
    fn final_probe(_res: &String, _slots: &[usize]) -> Result<(), String> {
        Ok(())
    }
    /// enforcement probe of a family without resources (system rules), after every operation
    fn global_probe(_slots: &[usize]) -> Result<(), String> {
        Ok(())
    }
}

fn thresholds_of(slots: &[usize]) -> Vec<u32> {
    slots.iter().map(|s| [1u32, 2, 3, 1][*s]).collect()
}

pub struct FlowFam;
impl Fam for FlowFam {
    type R = flow::Rule;
    const NAME: &'static str = "flow";
    fn make(res: &str, slot: usize) -> (flow::Rule, bool) {
        let base = flow::Rule { resource: res.into(), ..Default::default() };
        match slot {
            0 => (flow::Rule { threshold: 1.0, ..base }, true),
            1 => (flow::Rule { threshold: 2.0, stat_interval_ms: 2000, ..base }, true),
            2 => (flow::Rule { threshold: 3.0, stat_interval_ms: 700, ..base }, true),
            3 => (flow::Rule { threshold: 1.0, ..base }, true), // twin of slot 0 (fresh uuid)
            4 => (flow::Rule { threshold: -1.0, ..base }, false),
            _ => (flow::Rule { threshold: 2.0, calculate_strategy: flow::CalculateStrategy::WarmUp, warm_up_period_sec: 0, ..base }, false),
        }
    }
    fn make_empty_res() -> flow::Rule {
        flow::Rule { threshold: 1.0, ..Default::default() }
    }
    fn load(rs: Vec<Arc<flow::Rule>>) -> Option<bool> {
        Some(flow::load_rules(rs))
    }
    fn load_res(res: &String, rs: Vec<Arc<flow::Rule>>) -> Result<bool, String> {
        flow::load_rules_of_resource(res, rs).map_err(|e| e.to_string())
    }
    fn append(r: Arc<flow::Rule>) -> bool {
        flow::append_rule(r)
    }
    fn clear() {
        flow::clear_rules()
    }
    fn clear_res(res: &String) {
        flow::clear_rules_of_resource(res)
    }
    fn get() -> Vec<Arc<flow::Rule>> {
        flow::get_rules()
    }
    fn get_res(res: &String) -> Vec<Arc<flow::Rule>> {
        flow::get_rules_of_resource(res)
    }
    fn enforced(res: &String) -> Option<Vec<Arc<flow::Rule>>> {
        Some(flow::get_traffic_controller_list_for(res).iter().map(|c| c.rule().clone()).collect())
    }
    fn probe(res: &String, slots: &[usize]) -> Result<(), String> {
        let thresholds = thresholds_of(slots);
        clock::advance_ms(11_000);
        match thresholds.iter().min() {
            None => match build(Req::new(res, 1000)) {
                Ok(e) => {
                    e.exit();
                    Ok(())
                }
                Err(m) => Err(format!("no rule should be active, yet batch 1000 was rejected: {}", m.chars().take(120).collect::<String>())),
            },
            Some(t) => {
                if let Ok(e) = build(Req::new(res, t + 1)) {
                    e.exit();
                    return Err(format!("batch {} admitted although a rule with threshold {} should be enforced", t + 1, t));
                }
                match build(Req::new(res, *t)) {
                    Ok(e) => {
                        e.exit();
                        Ok(())
                    }
                    Err(m) => Err(format!("batch {} rejected although the smallest threshold is {}: {}", t, t, m.chars().take(120).collect::<String>())),
                }
            }
        }
    }
}

pub struct IsoFam;
impl Fam for IsoFam {
    type R = isolation::Rule;
    const NAME: &'static str = "isolation";
    fn make(res: &str, slot: usize) -> (isolation::Rule, bool) {
        let base = isolation::Rule { resource: res.into(), ..Default::default() };
        match slot {
            0 => (isolation::Rule { threshold: 1, ..base }, true),
            1 => (isolation::Rule { threshold: 2, ..base }, true),
            2 => (isolation::Rule { threshold: 3, ..base }, true),
            3 => (isolation::Rule { threshold: 1, ..base }, true),
            _ => (isolation::Rule { threshold: 0, ..base }, false),
        }
    }
    fn make_empty_res() -> isolation::Rule {
        isolation::Rule { threshold: 1, ..Default::default() }
    }
    fn load(rs: Vec<Arc<isolation::Rule>>) -> Option<bool> {
        isolation::load_rules(rs);
        None
    }
    fn load_res(res: &String, rs: Vec<Arc<isolation::Rule>>) -> Result<bool, String> {
        isolation::load_rules_of_resource(res, rs).map_err(|e| e.to_string())
    }
    fn append(r: Arc<isolation::Rule>) -> bool {
        isolation::append_rule(r)
    }
    fn clear() {
        isolation::clear_rules()
    }
    fn clear_res(res: &String) {
        isolation::clear_rules_of_resource(res)
    }
    fn get() -> Vec<Arc<isolation::Rule>> {
        isolation::get_rules()
    }
    fn get_res(res: &String) -> Vec<Arc<isolation::Rule>> {
        isolation::get_rules_of_resource(res)
    }
    fn probe(res: &String, slots: &[usize]) -> Result<(), String> {
        let thresholds = thresholds_of(slots);
        let mut open = OpenEntries::new();
        let cap = thresholds.iter().min().cloned();
        let n = cap.unwrap_or(5);
        for i in 0..n {
            match build(Req::new(res, 1)) {
                Ok(e) => {
                    open.push(e);
                }
                Err(m) => return Err(format!("entry {} of {} rejected although the smallest threshold is {:?}: {}", i + 1, n, cap, m.chars().take(120).collect::<String>())),
            }
        }
        let extra = build(Req::new(res, 1));
        match (cap, extra) {
            (Some(t), Ok(e)) => {
                open.push(e);
                Err(format!("entry {} admitted although a rule with threshold {} should be enforced", t + 1, t))
            }
            (None, Err(m)) => Err(format!("no rule should be active, yet an entry was rejected: {}", m.chars().take(120).collect::<String>())),
            (_, Ok(e)) => {
                open.push(e);
                Ok(())
            }
            _ => Ok(()),
        }
    }
}

pub struct HotFam;
impl Fam for HotFam {
    type R = hotspot::Rule;
    const NAME: &'static str = "hotspot";
    fn make(res: &str, slot: usize) -> (hotspot::Rule, bool) {
        let base = hotspot::Rule {
            resource: res.into(),
            metric_type: hotspot::MetricType::QPS,
            control_strategy: hotspot::ControlStrategy::Reject,
            duration_in_sec: 1,
            ..Default::default()
        };
        match slot {
            0 => (hotspot::Rule { threshold: 1, ..base }, true),
            1 => (hotspot::Rule { threshold: 2, burst_count: 1, ..base }, true),
            2 => (hotspot::Rule { threshold: 3, metric_type: hotspot::MetricType::Concurrency, ..base }, true),
            3 => (hotspot::Rule { threshold: 1, ..base }, true),
            4 => (hotspot::Rule { threshold: 1, duration_in_sec: 0, ..base }, false),
            _ => (hotspot::Rule { threshold: 1, param_index: 2, param_key: "k".into(), ..base }, false),
        }
    }
    fn make_empty_res() -> hotspot::Rule {
        hotspot::Rule { threshold: 1, duration_in_sec: 1, metric_type: hotspot::MetricType::QPS, ..Default::default() }
    }
    fn load(rs: Vec<Arc<hotspot::Rule>>) -> Option<bool> {
        Some(hotspot::load_rules(rs))
    }
    fn load_res(res: &String, rs: Vec<Arc<hotspot::Rule>>) -> Result<bool, String> {
        hotspot::load_rules_of_resource(res, rs).map_err(|e| e.to_string())
    }
    fn append(r: Arc<hotspot::Rule>) -> bool {
        hotspot::append_rule(r)
    }
    fn clear() {
        hotspot::clear_rules()
    }
    fn clear_res(res: &String) {
        hotspot::clear_rules_of_resource(res)
    }
    fn get() -> Vec<Arc<hotspot::Rule>> {
        hotspot::get_rules()
    }
    fn get_res(res: &String) -> Vec<Arc<hotspot::Rule>> {
        hotspot::get_rules_of_resource(res)
    }
    fn enforced(res: &String) -> Option<Vec<Arc<hotspot::Rule>>> {
        Some(hotspot::get_traffic_controller_list_for(res).iter().map(|c| c.rule().clone()).collect())
    }
    /// decisions on fresh parameter values: QPS rules cap the first batch of a value at threshold + burst,
    /// the concurrency rule (slot 2) caps the entries in flight for one value at 3
    fn probe(res: &String, slots: &[usize]) -> Result<(), String> {
        let hreq = |batch: u32, v: &str| {
            let mut r = Req::new(res, batch);
            r.args = Some(vec![v.to_string()]);
            r
        };
        let short = |m: String| m.chars().take(160).collect::<String>();
        clock::advance_ms(11_000);
        let qps_cap: Option<u32> = slots.iter().filter_map(|s| match s { 0 | 3 => Some(1u32), 1 => Some(3u32), _ => None }).min();
        let has_conc = slots.contains(&2);
        match qps_cap {
            None if !has_conc => match build(hreq(1000, &util::fresh_name("pv"))) {
                Ok(e) => e.exit(),
                Err(m) => return Err(format!("no rule should be active, yet batch 1000 was rejected: {}", short(m))),
            },
            None => {}
            Some(c) => {
                match build(hreq(c + 1, &util::fresh_name("pv"))) {
                    Ok(e) => {
                        e.exit();
                        return Err(format!("first batch {} of a fresh value admitted although a QPS rule with threshold + burst = {} should be enforced", c + 1, c));
                    }
                    Err(m) => {
                        if block_type_of(&m) != "HotSpotParamFlow" {
                            return Err(format!("rejection is not a hotspot block: {}", short(m)));
                        }
                    }
                }
                match build(hreq(c, &util::fresh_name("pv"))) {
                    Ok(e) => e.exit(),
                    Err(m) => return Err(format!("first batch {} of a fresh value rejected although the smallest threshold + burst is {}: {}", c, c, short(m))),
                }
            }
        }
        // concurrency: three entries of one value fit (spaced so that every QPS bucket has refilled), the fourth does not
        let v = util::fresh_name("pv");
        let mut open = OpenEntries::new();
        for i in 0..3 {
            clock::advance_ms(2_000);
            match build(hreq(1, &v)) {
                Ok(e) => {
                    open.push(e);
                }
                Err(m) => return Err(format!("entry {} of one value (2 s apart) rejected; rules in force (slots) {:?}: {}", i + 1, slots, short(m))),
            }
        }
        clock::advance_ms(2_000);
        match (has_conc, build(hreq(1, &v))) {
            (true, Ok(e)) => {
                open.push(e);
                Err("fourth concurrent entry of one value admitted although the concurrency rule (threshold 3) should be enforced".into())
            }
            (false, Err(m)) => Err(format!("fourth concurrent entry of one value rejected although no concurrency rule is in force: {}", short(m))),
            (_, Ok(e)) => {
                open.push(e);
                Ok(())
            }
            _ => Ok(()),
        }
    }
}

pub struct CbFam;
impl Fam for CbFam {
    type R = cb::Rule;
    const NAME: &'static str = "circuitbreaker";
    fn make(res: &str, slot: usize) -> (cb::Rule, bool) {
        let base = cb::Rule {
            resource: res.into(),
            strategy: cb::BreakerStrategy::ErrorCount,
            retry_timeout_ms: 1000,
            stat_interval_ms: 1000,
            min_request_amount: 1,
            ..Default::default()
        };
        match slot {
            0 => (cb::Rule { threshold: 1.0, ..base }, true),
            1 => (cb::Rule { threshold: 2.0, ..base }, true),
            2 => (cb::Rule { threshold: 0.5, strategy: cb::BreakerStrategy::ErrorRatio, ..base }, true),
            3 => (cb::Rule { threshold: 1.0, ..base }, true),
            4 => (cb::Rule { threshold: 1.0, stat_interval_ms: 0, ..base }, false),
            _ => (cb::Rule { threshold: 1.5, strategy: cb::BreakerStrategy::ErrorRatio, ..base }, false),
        }
    }
    fn make_empty_res() -> cb::Rule {
        cb::Rule { threshold: 1.0, retry_timeout_ms: 1000, stat_interval_ms: 1000, strategy: cb::BreakerStrategy::ErrorCount, ..Default::default() }
    }
    fn load(rs: Vec<Arc<cb::Rule>>) -> Option<bool> {
        Some(cb::load_rules(rs))
    }
    fn load_res(res: &String, rs: Vec<Arc<cb::Rule>>) -> Result<bool, String> {
        cb::load_rules_of_resource(res, rs).map_err(|e| e.to_string())
    }
    fn append(r: Arc<cb::Rule>) -> bool {
        cb::append_rule(r)
    }
    fn clear() {
        cb::clear_rules()
    }
    fn clear_res(res: &String) {
        cb::clear_rules_of_resource(res)
    }
    fn get() -> Vec<Arc<cb::Rule>> {
        cb::get_rules()
    }
    fn get_res(res: &String) -> Vec<Arc<cb::Rule>> {
        cb::get_rules_of_resource(res)
    }
    fn enforced(res: &String) -> Option<Vec<Arc<cb::Rule>>> {
        Some(cb::get_breakers_of_resource(res).iter().map(|b| b.bound_rule().clone()).collect())
    }
    /// failing requests: an error-count 1 or error-ratio 0.5 rule opens after the first failure, an
    /// error-count 2 rule after the second, no rule never (min_request_amount is 1, window 1 s)
    fn final_probe(res: &String, slots: &[usize]) -> Result<(), String> {
        clock::advance_ms(11_000);
        let need: Option<u32> = if slots.iter().any(|s| matches!(s, 0 | 2 | 3)) {
            Some(1)
        } else if slots.contains(&1) {
            Some(2)
        } else {
            None
        };
        for k in 0..3u32 {
            let expect_reject = need.map(|n| k >= n).unwrap_or(false);
            match build(Req::new(res, 1)) {
                Ok(e) => {
                    if expect_reject {
                        e.exit();
                        return Err(format!("request admitted after {} failed requests although the rules in force (slots {:?}) open the breaker after {:?}", k, slots, need));
                    }
                    e.set_err(sentinel_core::Error::msg("biz"));
                    e.exit();
                }
                Err(m) => {
                    if !expect_reject {
                        return Err(format!("request rejected after {} failed requests although the rules in force (slots {:?}) open the breaker only after {:?}: {}", k, slots, need, m.chars().take(160).collect::<String>()));
                    }
                    if block_type_of(&m) != "CircuitBreaking" {
                        return Err(format!("rejection is not a circuit-breaker block: {}", m.chars().take(160).collect::<String>()));
                    }
                    return Ok(());
                }
            }
        }
        Ok(())
    }
}

pub struct SysFam;
impl Fam for SysFam {
    type R = system::Rule;
    const NAME: &'static str = "system";
    const HAS_RES_OPS: bool = false;
    fn make(_res: &str, slot: usize) -> (system::Rule, bool) {
        match slot {
            0 => (system::Rule { metric_type: system::MetricType::Concurrency, threshold: 2.0, ..Default::default() }, true),
            1 => (system::Rule { metric_type: system::MetricType::InboundQPS, threshold: 3.0, ..Default::default() }, true),
            2 => (system::Rule { metric_type: system::MetricType::Load, threshold: 1.0, ..Default::default() }, true),
            3 => (system::Rule { metric_type: system::MetricType::Concurrency, threshold: 2.0, ..Default::default() }, true),
            4 => (system::Rule { metric_type: system::MetricType::Load, threshold: 1.5, ..Default::default() }, false),
            _ => (system::Rule { metric_type: system::MetricType::AvgRT, threshold: -1.0, ..Default::default() }, false),
        }
    }
    fn make_empty_res() -> system::Rule {
        system::Rule { metric_type: system::MetricType::CpuUsage, threshold: 150.0, ..Default::default() }
    }
    fn load(rs: Vec<Arc<system::Rule>>) -> Option<bool> {
        system::load_rules(rs);
        None
    }
    fn append(r: Arc<system::Rule>) -> bool {
        system::append_rule(r)
    }
    fn clear() {
        system::clear_rules()
    }
    fn get() -> Vec<Arc<system::Rule>> {
        system::get_rules()
    }
    /// inbound decisions: the load rule (threshold 1, slot 2) rejects while the load reads 2; the concurrency
    /// rule (2, slots 0/3) rejects with two inbound entries in flight; the QPS rule (3 per second, slot 1)
    /// rejects once three inbound entries passed in the window
    fn global_probe(slots: &[usize]) -> Result<(), String> {
        use sentinel_core::system_metric;
        let res = util::fresh_name("c10sysprobe");
        fn inb(res: &str) -> Req<'_> {
            let mut r = Req::new(res, 1);
            r.inbound = true;
            r
        }
        let short = |m: String| m.chars().take(160).collect::<String>();
        let (has_conc, has_qps, has_load) = (slots.iter().any(|s| matches!(s, 0 | 3)), slots.contains(&1), slots.contains(&2));
        clock::advance_ms(11_000);
        system_metric::verif_set_cpu_usage(0.0);
        system_metric::verif_set_load(2.0);
        let r = build(inb(&res));
        system_metric::verif_set_load(0.0);
        match (has_load, r) {
            (true, Ok(e)) => {
                e.exit();
                return Err("inbound entry admitted at load 2 although the load rule (threshold 1) should be enforced".into());
            }
            (false, Err(m)) => return Err(format!("inbound entry rejected at load 2 although no load rule is in force: {}", short(m))),
            (_, Ok(e)) => e.exit(),
            _ => {}
        }
        clock::advance_ms(11_000);
        let mut open = OpenEntries::new();
        let (mut in_flight, mut passed) = (0u32, 0u32);
        for k in 0..5 {
            let expect_reject = (has_conc && in_flight >= 2) || (has_qps && passed >= 3);
            match build(inb(&res)) {
                Ok(e) => {
                    open.push(e);
                    if expect_reject {
                        return Err(format!("inbound entry {} admitted with {} in flight and {} passed this second; rules in force (slots) {:?}", k + 1, in_flight, passed, slots));
                    }
                    in_flight += 1;
                    passed += 1;
                }
                Err(m) => {
                    if !expect_reject {
                        return Err(format!("inbound entry {} rejected with {} in flight and {} passed this second; rules in force (slots) {:?}: {}", k + 1, in_flight, passed, slots, short(m)));
                    }
                    if block_type_of(&m) != "SystemFlow" {
                        return Err(format!("rejection is not a system block: {}", short(m)));
                    }
                    // free one slot so that the next request exercises the other rule too
                    if let Some(i) = open.open_indices().first().cloned() {
                        open.exit(i);
                        in_flight -= 1;
                    }
                }
            }
        }
        Ok(())
    }
}

fn set_eq<R: PartialEq>(a: &[Arc<R>], b: &[Arc<R>]) -> bool {
    a.iter().all(|x| b.iter().any(|y| **x == **y)) && b.iter().all(|y| a.iter().any(|x| **x == **y))
}

struct Outcome {
    nontrivial: bool,
    classes: Vec<&'static str>,
}

fn run_family<F: Fam>(case: &Case) -> Result<Outcome, (String, String)> {
    util::reset_all();
    clock::new_case_epoch();
    let names: Vec<String> = (0..case.nres).map(|i| util::fresh_name(&format!("c10{}{}", F::NAME, i))).collect();
    // pool
    let mut pool: Vec<(Arc<F::R>, bool, usize)> = Vec::new(); // (rule, valid, resource index; usize::MAX = empty name)
    for (ri, n) in names.iter().enumerate() {
        for slot in 0..PER_RES {
            let (r, v) = F::make(n, slot);
            pool.push((Arc::new(r), v, ri));
        }
    }
    pool.push((Arc::new(F::make_empty_res()), false, usize::MAX));
    // malformed call: an empty resource name must be refused
    if F::HAS_RES_OPS && F::load_res(&String::new(), vec![]).is_ok() {
        return Err(("empty-resource-accepted".into(), "load_rules_of_resource(\"\", ..) returned Ok".into()));
    }
    // model: resource -> pool indices of valid rules in force
    let mut model: Vec<Vec<usize>> = vec![Vec::new(); case.nres];
    let mut prev_mut: Option<Op> = None;
    let (mut appends_on_nonempty, mut invalid_mixed, mut res_replace_with_other) = (0u32, 0u32, 0u32);
    let valid_of = |idxs: &[usize], pool: &Vec<(Arc<F::R>, bool, usize)>, ri: usize| -> Vec<usize> {
        let mut out: Vec<usize> = Vec::new();
        for i in idxs {
            if pool[*i].1 && pool[*i].2 == ri && !out.iter().any(|j| *pool[*j].0 == *pool[*i].0) {
                out.push(*i);
            }
        }
        out
    };
    let same_set = |a: &Vec<usize>, b: &Vec<usize>, pool: &Vec<(Arc<F::R>, bool, usize)>| -> bool {
        a.iter().all(|x| b.iter().any(|y| *pool[*x].0 == *pool[*y].0)) && b.iter().all(|y| a.iter().any(|x| *pool[*x].0 == *pool[*y].0))
    };
    let has_dups = |idxs: &[usize], pool: &Vec<(Arc<F::R>, bool, usize)>| -> bool {
        for (a, i) in idxs.iter().enumerate() {
            for j in idxs.iter().skip(a + 1) {
                if i != j && *pool[*i].0 == *pool[*j].0 {
                    return true;
                }
            }
        }
        false
    };

    // every pool index handed to the manager so far: return values are asserted only for rules
    // of which no equal-but-differently-identified twin was ever given
    let mut ever: Vec<usize> = Vec::new();
    for (oi, op) in case.ops.iter().enumerate() {
        let before = model.clone();
        match op {
            Op::LoadAll(v) | Op::LoadRes(_, v) => ever.extend(v.iter().cloned()),
            Op::Append(i) => ever.push(*i),
            _ => {}
        }
        let tainted = |idxs: &[usize]| -> bool {
            idxs.iter().any(|i| ever.iter().any(|j| j != i && *pool[*j].0 == *pool[*i].0))
        };
        match op {
            Op::LoadAll(idxs) => {
                let rs: Vec<Arc<F::R>> = idxs.iter().map(|i| pool[*i].0.clone()).collect();
                let ret = F::load(rs);
                for ri in 0..case.nres {
                    model[ri] = valid_of(idxs, &pool, ri);
                }
                if idxs.iter().any(|i| !pool[*i].1) && idxs.iter().any(|i| pool[*i].1) {
                    invalid_mixed += 1;
                }
                if let Some(ret) = ret {
                    let changed = (0..case.nres).any(|ri| !same_set(&before[ri], &model[ri], &pool));
                    if changed && !ret {
                        return Err(("changed-load-reported-unchanged".into(), format!("op {} {:?}: the valid rule set changed but load_rules returned false", oi, op)));
                    }
                    let repeat = matches!(&prev_mut, Some(Op::LoadAll(p)) if p == idxs);
                    if repeat && ret && !has_dups(idxs, &pool) && !tainted(idxs) {
                        return Err(("identical-reload-reported-changed".into(), format!("op {} {:?}: identical reload (same rule objects) reported as changed", oi, op)));
                    }
                }
                prev_mut = Some(op.clone());
            }
            Op::LoadRes(ri, idxs) => {
                let rs: Vec<Arc<F::R>> = idxs.iter().map(|i| pool[*i].0.clone()).collect();
                let ret = F::load_res(&names[*ri], rs);
                model[*ri] = valid_of(idxs, &pool, *ri);
                if (0..case.nres).any(|o| o != *ri && !before[o].is_empty()) {
                    res_replace_with_other += 1;
                }
                if idxs.iter().any(|i| !pool[*i].1) && idxs.iter().any(|i| pool[*i].1) {
                    invalid_mixed += 1;
                }
                match ret {
                    Err(e) => return Err(("load-of-resource-failed".into(), format!("op {} {:?}: Err({})", oi, op, e))),
                    Ok(ret) => {
                        let changed = !same_set(&before[*ri], &model[*ri], &pool);
                        if changed && !ret {
                            return Err(("changed-load-reported-unchanged".into(), format!("op {} {:?}: the valid rule set changed but Ok(false) was returned", oi, op)));
                        }
                        let repeat = matches!(&prev_mut, Some(Op::LoadRes(pr, p)) if pr == ri && p == idxs);
                        if repeat && ret && !idxs.is_empty() && !has_dups(idxs, &pool) && !tainted(idxs) {
                            return Err(("identical-reload-reported-changed".into(), format!("op {} {:?}: identical reload reported as changed", oi, op)));
                        }
                    }
                }
                prev_mut = Some(op.clone());
            }
            Op::Append(i) => {
                let (r, valid, ri) = (pool[*i].0.clone(), pool[*i].1, pool[*i].2);
                let present_same_object = ri != usize::MAX && before[ri].contains(i);
                let ret = F::append(r);
                if valid {
                    if !before[ri].is_empty() {
                        appends_on_nonempty += 1;
                    }
                    if !model[ri].iter().any(|j| *pool[*j].0 == *pool[*i].0) {
                        model[ri].push(*i);
                        if !ret {
                            return Err(("append-of-new-rule-refused".into(), format!("op {} {:?}: append_rule returned false for a rule that was not active", oi, op)));
                        }
                    }
                }
                let twin_present = ri != usize::MAX && before[ri].iter().any(|j| j != i && *pool[*j].0 == *pool[*i].0);
                if present_same_object && ret && !twin_present && !tainted(&[*i]) {
                    return Err(("append-of-present-rule-accepted".into(), format!("op {} {:?}: append_rule returned true for a rule object that is already active", oi, op)));
                }
                prev_mut = Some(op.clone());
            }
            Op::ClearAll => {
                F::clear();
                for m in model.iter_mut() {
                    m.clear();
                }
                prev_mut = Some(op.clone());
            }
            Op::ClearRes(ri) => {
                F::clear_res(&names[*ri]);
                model[*ri].clear();
                prev_mut = Some(op.clone());
            }
            Op::Get => {}
        }
        // ---- compare reported rules with the model
        let all_model: Vec<Arc<F::R>> = model.iter().flatten().map(|i| pool[*i].0.clone()).collect();
        let got = F::get();
        // rules of other shards/cases never exist here: each case starts from cleared managers
        if !set_eq(&got, &all_model) {
            return Err(("get-rules-mismatch".into(), format!("after op {} {:?}: get_rules() reports {} rules {:?}\nexpected {:?}", oi, op, got.len(), got, all_model)));
        }
        if F::HAS_RES_OPS {
            for ri in 0..case.nres {
                let want: Vec<Arc<F::R>> = model[ri].iter().map(|i| pool[*i].0.clone()).collect();
                let got = F::get_res(&names[ri]);
                if !set_eq(&got, &want) {
                    return Err((
                        if matches!(op, Op::Append(_)) { "append-lost-rule".into() } else { "get-rules-of-resource-mismatch".into() },
                        format!("after op {} {:?}: resource {} reports {:?}\nexpected {:?}", oi, op, ri, got, want),
                    ));
                }
                if let Some(enf) = F::enforced(&names[ri]) {
                    if !set_eq(&enf, &want) {
                        return Err((
                            if matches!(op, Op::Append(_)) { "append-lost-enforcement".into() } else { "enforced-rules-mismatch".into() },
                            format!("after op {} {:?}: resource {} enforces {:?}\nexpected {:?}", oi, op, ri, enf, want),
                        ));
                    }
                }
                // decisions
                let slots: Vec<usize> = model[ri].iter().map(|i| i % PER_RES).collect();
                if let Err(e) = F::probe(&names[ri], &slots) {
                    return Err(("enforcement-mismatch".into(), format!("after op {} {:?}: resource {}: {}", oi, op, ri, e)));
                }
            }
        } else {
            let slots: Vec<usize> = model[0].iter().map(|i| i % PER_RES).collect();
            if let Err(e) = F::global_probe(&slots) {
                return Err(("enforcement-mismatch".into(), format!("after op {} {:?}: {}", oi, op, e)));
            }
        }
    }
    if F::HAS_RES_OPS {
        for ri in 0..case.nres {
            let slots: Vec<usize> = model[ri].iter().map(|i| i % PER_RES).collect();
            if let Err(e) = F::final_probe(&names[ri], &slots) {
                return Err(("enforcement-mismatch".into(), format!("after the last operation: resource {}: {}", ri, e)));
            }
        }
    }
    let mut classes = vec![F::NAME];
    if appends_on_nonempty >= 2 { classes.push("two-appends-on-nonempty-resource"); }
    if invalid_mixed > 0 { classes.push("invalid-mixed-into-replacement"); }
    if res_replace_with_other > 0 { classes.push("per-resource-replacement-with-other-resources-loaded"); }
    Ok(Outcome { nontrivial: appends_on_nonempty >= 2 || invalid_mixed > 0 || res_replace_with_other > 0, classes })
}

impl Property for C10 {
    fn id(&self) -> &'static str {
        "C10"
    }
    fn budget(&self, tier: Tier) -> Budget {
        match tier {
            Tier::Quick => Budget { cases: 3000, shards: 16, min_len: 8, max_len: 120 },
            Tier::Thorough => Budget { cases: 100_000, shards: 16, min_len: 8, max_len: 120 },
        }
    }
    fn dirty_on_fail(&self) -> bool {
        true
    }
    fn rule(&self) -> String {
        "bytes -> family (flow, isolation, hotspot, circuit breaker, system), 2-3 resources, 2-12 operations from {load-all, load-for-resource, append, clear-all, clear-resource, get} over a pool of per-resource valid rules (three thresholds), an equal-but-differently-identified twin, two invalid rules and one rule with an empty resource name; after every operation get_rules / get_rules_of_resource (and the rules bound to the enforcing controllers / breakers) are compared as sets under rule equality with a reference map, return values are asserted only where the statement fixes them, and decision probes check enforcement after every operation (flow: smallest threshold; isolation: smallest cap; hotspot: first batch of a fresh value against threshold + burst, and the concurrency cap of one value; system: load, inbound concurrency and inbound QPS rules) and, for circuit breakers, after the last operation (failures needed to open); non-trivial = >= 2 appends on a resource that already has a rule, or an invalid rule mixed into a replacement, or a per-resource replacement while another resource has rules; distinct = distinct decoded cases".into()
    }
    fn assumptions(&self) -> Vec<String> {
        vec![
            "rules given to load_rules_of_resource(r, ..) always name r (every caller's precondition)".into(),
            "a rule given under two ids may be kept once or twice (sets under rule equality)".into(),
            "a panic inside a manager call fails the case with clause `panic` and ends the shard (the manager may be poisoned)".into(),
        ]
    }
    fn describe(&self, bytes: &[u8]) -> Option<serde_json::Value> {
        serde_json::to_value(decode(&mut Bytes::new(bytes))).ok()
    }
    fn run(&self, bytes: &[u8], cfg: &RunCfg) -> Verdict {
        let mut u = Bytes::new(bytes);
        let case = decode(&mut u);
        let r = match case.family {
            0 => run_family::<FlowFam>(&case),
            1 => run_family::<IsoFam>(&case),
            2 => run_family::<HotFam>(&case),
            3 => run_family::<CbFam>(&case),
            _ => run_family::<SysFam>(&case),
        };
        let fam = ["flow", "isolation", "hotspot", "circuitbreaker", "system"][case.family as usize];
        match r {
            Err((clause, detail)) => Verdict::Fail(Failure {
                clause: clause.clone(),
                key: format!("C10|{}|{}", fam, clause),
                detail,
                decoded: serde_json::to_value(&case).unwrap(),
            }),
            Ok(o) => Verdict::Pass(CaseReport {
                nontrivial: o.nontrivial,
                classes: o.classes,
                digest: digest_of(&case),
                decoded: if cfg.want_decoded { serde_json::to_value(&case).ok() } else { None },
                known_hits: vec![],
                counters: vec![],
            }),
        }
    }
}
