//! C04 — every entry is accounted exactly once: pass xor block, completion, in-flight.
use super::common::*;
use crate::engine::*;
use crate::fail;
use crate::model::node::{compare_node, NodeModel};
use crate::util::{self, clock};
use sentinel_core::base::{ConcurrencyStat, StatNode};
use sentinel_core::{circuitbreaker, flow, hotspot, isolation, stat, system};
use serde::Serialize;
use std::sync::Arc;

pub struct C04;

#[derive(Debug, Clone, Serialize)]
pub enum Step {
    Build { dt: u64, res: usize, inbound: bool, batch: u32 },
    Exit { dt: u64, k: usize, with_error: bool },
}

#[derive(Debug, Clone, Serialize)]
pub struct Case {
    pub phase_ms: u64,
    pub nres: usize,
    /// 0 none, 1 flow reject, 2 isolation, 3 hotspot concurrency, 4 breaker (error count), 5 system concurrency,
    /// 6 flow throttling (entries are queued: build() sleeps), 7 hotspot QPS throttling, 8 hotspot QPS reject, 9 flow warm-up
    pub blocker: u8,
    pub blocker_threshold: u32,
    pub steps: Vec<Step>,
    /// name of the last resource: 0 an ordinary fresh name, 1 the empty string, 2 a name with unicode, blanks, the
    /// metric-line separator and a line break
    pub odd_name: u8,
}

pub fn decode(u: &mut Bytes) -> Case {
    let phase_ms = [0u64, 250, 499, 500, 999, 1][u.choice(6)];
    let nres = 2 + u.choice(2);
    let blocker = u.choice(10) as u8;
    let blocker_threshold = 1 + u.choice(3) as u32;
    let n = 4 + u.choice(57);
    let mut steps = Vec::new();
    let mut rel = phase_ms;
    for _ in 0..n {
        let to_b = 500 - rel % 500;
        let dt = match u.choice(14) {
            0 | 1 | 2 | 3 => 0,
            4 => 1,
            5 => to_b,
            6 => to_b - 1,
            7 => 500,
            8 => 1000,
            9 => 1001,
            10 => 9_500,
            11 => 10_000,
            12 => 10_001 + u.range(0, 255) * 20,
            _ => u.range(0, 255) * 3,
        };
        rel += dt;
        if u.choice(5) >= 3 {
            steps.push(Step::Exit { dt, k: u.choice(8), with_error: u.choice(4) == 3 });
        } else {
            steps.push(Step::Build {
                dt,
                res: u.choice(nres),
                inbound: u.bool(),
                batch: 1 + u.choice(5) as u32,
            });
        }
    }
    let odd_name = [0u8, 0, 0, 0, 1, 2][u.tail_choice(6)];
    Case { phase_ms, nres, blocker, blocker_threshold, steps, odd_name }
}

impl Property for C04 {
    fn id(&self) -> &'static str {
        "C04"
    }
    fn budget(&self, tier: Tier) -> Budget {
        match tier {
            Tier::Quick => Budget { cases: 4000, shards: 16, min_len: 24, max_len: 320 },
            Tier::Thorough => Budget { cases: 100_000, shards: 16, min_len: 24, max_len: 320 },
        }
    }
    /// Many resources in one process: the accounting holds for every one of them, also past the registry's warning
    /// threshold (10 000 nodes). Every resource gets one build / exit; the last 300 and a sample of the others are judged.
    fn extra(&self, _tier: Tier) -> Option<Result<(u64, serde_json::Value), Failure>> {
        use sentinel_core::base::{MetricEvent, ReadStat};
        util::reset_all();
        let t0 = clock::new_case_epoch() + 100;
        clock::set_ms(t0);
        let n = 10_300usize;
        let tag = util::fresh_name("c04many");
        let mut judged = 0u64;
        let fail = |i: usize, what: String| Failure { clause: "many-resources-accounting".into(), key: "C04|many-resources-accounting".into(), detail: format!("resource number {} of {} distinct resources in one process: {}", i + 1, n, what), decoded: serde_json::json!({"resources": n, "failing_index": i}) };
        for i in 0..n {
            let name = format!("{}-{}", tag, i);
            let e = match build(Req::new(&name, 2)) {
                Ok(e) => e,
                Err(m) => return Some(Err(fail(i, format!("entry blocked without rules: {}", m)))),
            };
            let judge = i >= n - 300 || i % 97 == 0;
            if judge {
                judged += 1;
                let node = match stat::get_resource_node(&name) {
                    Some(nd) => nd,
                    None => return Some(Err(fail(i, "an entry was handed out but no statistics node is registered".into()))),
                };
                if node.current_concurrency() != 1 || node.sum(MetricEvent::Pass) != 2 {
                    return Some(Err(fail(i, format!("after build: in-flight {} (want 1), pass {} (want 2)", node.current_concurrency(), node.sum(MetricEvent::Pass)))));
                }
                e.exit();
                if node.current_concurrency() != 0 || node.sum(MetricEvent::Complete) != 2 {
                    return Some(Err(fail(i, format!("after exit: in-flight {} (want 0), complete {} (want 2)", node.current_concurrency(), node.sum(MetricEvent::Complete)))));
                }
            } else {
                e.exit();
            }
        }
        util::reset_all();
        Some(Ok((n as u64, serde_json::json!({"many_resources_sweep": {"distinct_resources_in_one_process": n, "judged": judged}}))))
    }
    /// replay of a failure of the many-resources sweep (no byte string exists for it)
    fn run_decoded(&self, decoded: &serde_json::Value, _cfg: &RunCfg) -> Option<Verdict> {
        decoded.get("resources")?;
        match self.extra(Tier::Quick)? {
            Err(f) => Some(Verdict::Fail(f)),
            Ok(_) => Some(Verdict::Pass(CaseReport { nontrivial: true, classes: vec!["many-resources-sweep"], digest: 0, decoded: Some(decoded.clone()), known_hits: vec![], counters: vec![] })),
        }
    }
    fn rule(&self) -> String {
        "bytes -> 2-3 resources (the last one, in a third of the cases, named by the empty string or by a name with unicode, blanks, the separator and a line break), optional rule of one family (flow reject, isolation, hotspot concurrency, error-count breaker, system concurrency, flow throttling and hotspot QPS throttling that queue some entries, hotspot QPS reject, flow warm-up) on resource 0 / globally, 4-60 steps build(dt, resource, inbound|outbound, batch 1..5) / exit(dt, any open entry, with or without error); decisions are taken as observed, the accounting is compared after every step with an InFlight+event-list model on every resource node and on the global inbound node (current_concurrency, 10 s window Pass/Block/Complete/Error/Rt sums, default-window sums/qps/avg_rt/min_rt); plus (coverage.extra) one process with 10 300 distinct resources, each built and exited once, the last 300 and every 97th judged; non-trivial = >=1 blocked build, >=2 entries open at once on one resource, >=1 exit in a later bucket than its build, both traffic types present; distinct = distinct decoded cases".into()
    }
    fn assumptions(&self) -> Vec<String> {
        vec![
            "virtual clock hook; default window geometry".into(),
            "the global inbound node is shared across cases: each case starts >= 20 s of virtual time after the previous one and every case leaves its in-flight count at zero (asserted at case start)".into(),
            "each passed entry is exited exactly once (by the history or by the harness's drop guard)".into(),
        ]
    }
    fn run(&self, bytes: &[u8], cfg: &RunCfg) -> Verdict {
        let mut u = Bytes::new(bytes);
        let case = decode(&mut u);
        run_case(&case, cfg)
    }
}

struct OpenRec {
    res: usize,
    inbound: bool,
    batch: u32,
    t_build: u64,
    idx: usize,
}

pub fn run_case(case: &Case, cfg: &RunCfg) -> Verdict {
    const ID: &str = "C04";
    util::reset_all();
    let t0 = clock::new_case_epoch() + case.phase_ms;
    clock::set_ms(t0);
    let mut names: Vec<String> = (0..case.nres).map(|i| util::fresh_name(&format!("c04r{}", i))).collect();
    match case.odd_name {
        // the library accepts an entry on the empty name; as long as it hands out an entry for it, that entry is accounted
        1 => names[case.nres - 1] = String::new(),
        2 => names[case.nres - 1] = format!("订单 |a b\n{}", names[case.nres - 1]),
        _ => {}
    }
    let inbound = stat::inbound_node();
    if inbound.current_concurrency() != 0 {
        fail!(ID, "inbound-baseline", "inbound-baseline", case, "inbound node in-flight is {} at case start", inbound.current_concurrency());
    }
    let thr = case.blocker_threshold;
    match case.blocker {
        1 => {
            flow::load_rules(vec![Arc::new(flow::Rule {
                resource: names[0].clone(),
                threshold: thr as f64,
                ..Default::default()
            })]);
        }
        2 => {
            isolation::load_rules(vec![Arc::new(isolation::Rule {
                resource: names[0].clone(),
                threshold: thr,
                ..Default::default()
            })]);
        }
        3 => {
            hotspot::load_rules(vec![Arc::new(hotspot::Rule {
                resource: names[0].clone(),
                metric_type: hotspot::MetricType::Concurrency,
                param_index: 0,
                threshold: thr as u64,
                ..Default::default()
            })]);
        }
        4 => {
            circuitbreaker::load_rules(vec![Arc::new(circuitbreaker::Rule {
                resource: names[0].clone(),
                strategy: circuitbreaker::BreakerStrategy::ErrorCount,
                retry_timeout_ms: 800,
                min_request_amount: 0,
                stat_interval_ms: 1000,
                threshold: thr as f64,
                ..Default::default()
            })]);
        }
        6 => {
            flow::load_rules(vec![Arc::new(flow::Rule {
                resource: names[0].clone(),
                threshold: (2 * thr) as f64,
                control_strategy: flow::ControlStrategy::Throttling,
                max_queueing_time_ms: 300,
                ..Default::default()
            })]);
        }
        7 => {
            hotspot::load_rules(vec![Arc::new(hotspot::Rule {
                resource: names[0].clone(),
                metric_type: hotspot::MetricType::QPS,
                control_strategy: hotspot::ControlStrategy::Throttling,
                param_index: 0,
                threshold: (2 * thr) as u64,
                max_queueing_time_ms: 300,
                duration_in_sec: 1,
                ..Default::default()
            })]);
        }
        8 => {
            hotspot::load_rules(vec![Arc::new(hotspot::Rule {
                resource: names[0].clone(),
                metric_type: hotspot::MetricType::QPS,
                control_strategy: hotspot::ControlStrategy::Reject,
                param_index: 0,
                threshold: thr as u64,
                duration_in_sec: 1,
                ..Default::default()
            })]);
        }
        9 => {
            flow::load_rules(vec![Arc::new(flow::Rule {
                resource: names[0].clone(),
                threshold: 10.0,
                calculate_strategy: flow::CalculateStrategy::WarmUp,
                warm_up_period_sec: 1,
                warm_up_cold_factor: 3,
                ..Default::default()
            })]);
        }
        5 => {
            system::load_rules(vec![Arc::new(system::Rule {
                metric_type: system::MetricType::Concurrency,
                threshold: thr as f64,
                ..Default::default()
            })]);
        }
        _ => {}
    }
    let mut models: Vec<NodeModel> = vec![NodeModel::default(); case.nres];
    let mut inb_model = NodeModel::default();
    let inb_long = inbound.generate_read_stat(20, 10_000).unwrap();
    let mut open = OpenEntries::new();
    let mut recs: Vec<OpenRec> = Vec::new();
    let (mut blocked, mut max_open_one, mut late_exit) = (0u64, 0i64, 0u64);
    let mut queued = 0u64;
    let (mut saw_in, mut saw_out) = (false, false);

    for (si, step) in case.steps.iter().enumerate() {
        match step {
            Step::Build { dt, res, inbound: inb, batch } => {
                clock::advance_ms(*dt);
                let t_start = clock::now_ms();
                if *inb { saw_in = true } else { saw_out = true }
                let mut req = Req::new(&names[*res], *batch);
                req.inbound = *inb;
                req.args = Some(vec!["v".to_string()]);
                let built = build(req);
                // a throttling rule holds the caller (virtual sleep): the pass is recorded when the
                // entry is returned, the response time counts from the moment it was requested
                let t = clock::now_ms();
                if t > t_start {
                    queued += 1;
                }
                match built {
                    Ok(e) => {
                        models[*res].pass(t, *batch as u64);
                        if *inb {
                            inb_model.pass(t, *batch as u64);
                        }
                        let idx = open.push(e);
                        recs.push(OpenRec { res: *res, inbound: *inb, batch: *batch, t_build: t_start, idx });
                        max_open_one = max_open_one.max(models[*res].open);
                    }
                    // a refusal that is not a block (no rule involved) would be a malformed-call answer, not an entry
                    Err(m) if !m.contains("block_type") => {}
                    Err(_) => {
                        blocked += 1;
                        models[*res].block(t, *batch as u64);
                        if *inb {
                            inb_model.block(t, *batch as u64);
                        }
                    }
                }
            }
            Step::Exit { dt, k, with_error } => {
                clock::advance_ms(*dt);
                let t = clock::now_ms();
                if !recs.is_empty() {
                    let r = recs.remove(*k % recs.len());
                    if *with_error {
                        if let Some(Some(e)) = open.0.get(r.idx) {
                            e.set_err(sentinel_core::Error::msg("biz error"));
                        }
                    }
                    open.exit(r.idx);
                    let rt = t - r.t_build;
                    if t / 500 != r.t_build / 500 {
                        late_exit += 1;
                    }
                    models[r.res].complete(t, r.batch as u64, rt);
                    if r.inbound {
                        inb_model.complete(t, r.batch as u64, rt);
                    }
                }
            }
        }
        // compare after every step
        let t = clock::now_ms();
        for (i, name) in names.iter().enumerate() {
            match stat::get_resource_node(name) {
                None => {
                    if !models[i].events.is_empty() {
                        fail!(ID, "node-missing", "node-missing", case, "step {}: resource {} has traffic but no node", si, i);
                    }
                }
                Some(node) => {
                    let long = node.generate_read_stat(20, 10_000).unwrap();
                    if let Err((clause, detail)) = compare_node(&format!("resource {}", i), &*node, &*long, &models[i], t) {
                        fail!(ID, clause, clause, case, "step {} t=+{}: {}", si, t - t0, detail);
                    }
                }
            }
        }
        if let Err((clause, detail)) = compare_node("inbound node", &*inbound, &*inb_long, &inb_model, t) {
            fail!(ID, format!("inbound-{}", clause), format!("inbound-{}", clause), case, "step {} t=+{}: {}", si, t - t0, detail);
        }
    }
    // harness exits whatever is still open; the inbound node must be back at zero
    drop(open);
    if inbound.current_concurrency() != 0 {
        fail!(ID, "inbound-not-released", "inbound-not-released", case, "inbound in-flight {} after all entries exited", inbound.current_concurrency());
    }
    let mut classes = Vec::new();
    classes.push(["no-blocker", "flow-blocker", "isolation-blocker", "hotspot-blocker", "breaker-blocker", "system-blocker", "flow-throttling", "hotspot-throttling", "hotspot-qps-reject", "flow-warm-up"][case.blocker as usize]);
    if case.odd_name == 1 { classes.push("resource-with-empty-name"); }
    if case.odd_name == 2 { classes.push("resource-with-odd-name"); }
    if queued > 0 { classes.push("queued-admission"); }
    if blocked > 0 { classes.push("has-blocked-build"); }
    if max_open_one >= 2 { classes.push("two-open-on-one-resource"); }
    if late_exit > 0 { classes.push("exit-in-later-bucket"); }
    if saw_in && saw_out { classes.push("both-traffic-types"); }
    let nontrivial = blocked > 0 && max_open_one >= 2 && late_exit > 0 && saw_in && saw_out;
    Verdict::Pass(CaseReport {
        nontrivial,
        classes,
        digest: digest_of(case),
        decoded: if cfg.want_decoded { serde_json::to_value(case).ok() } else { None },
        known_hits: vec![],
        counters: vec![("blocked_builds", blocked)],
    })
}
