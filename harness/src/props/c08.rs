//! C08 — warm-up ramps from threshold/coldFactor up to threshold, and cools when idle.
use super::common::*;
use crate::engine::*;
use crate::fail;
use crate::util::{self, clock};
use sentinel_core::flow;
use serde::Serialize;
use std::sync::Arc;

pub struct C08;

#[derive(Debug, Clone, Copy, Serialize, PartialEq)]
pub enum Kind {
    Saturating,
    Mid,
    Below,
    Idle,
}

#[derive(Debug, Clone, Serialize)]
pub struct Case {
    pub q: u32,
    pub cold_factor: u32,
    pub period_s: u32,
    pub grid_ms: u32,
    pub phases: Vec<(Kind, u32)>,
    /// stop-point sweep (q, cold factor, period): for EVERY k in 1..=2p+3 a fresh rule is saturated for k seconds,
    /// left idle for 2p (+ extra) seconds and must then be cold again
    pub sweep: (u32, u32, u32, u32),
}

pub fn decode(u: &mut Bytes) -> Case {
    let cold_factor = [0u32, 2, 3, 4, 5, 6][u.choice(6)];
    let c_eff = if cold_factor == 0 { 3 } else { cold_factor };
    let mut q = 30 + u.choice16(471) as u32;
    if q < 10 * c_eff {
        q = 10 * c_eff;
    }
    let period_s = match u.choice(8) {
        0 | 1 => 1,
        2 => 2,
        3 => 3,
        4 => 5,
        5 => 8,
        6 => 1 + u.choice(20) as u32,
        _ => 20,
    };
    let grid_ms = [10u32, 1, 2, 5, 20, 7, 13, 4][u.choice(8)];
    let p = period_s;
    let budget = 5 * p + 30;
    let mut phases: Vec<(Kind, u32)> = Vec::new();
    let mut total = 0u32;
    // skeleton that makes the interesting shape common: saturate, idle long enough to cool, saturate again
    let shape = u.choice(4);
    let mut plan: Vec<(Kind, u32)> = match shape {
        0 | 1 => vec![
            (Kind::Saturating, 2 * p + 2 + u.choice(3) as u32),
            (Kind::Idle, 2 * p + u.choice(4) as u32),
            (Kind::Saturating, p + 1 + u.choice(3) as u32),
        ],
        2 => vec![
            (Kind::Saturating, p + u.choice(3) as u32),
            (Kind::Idle, [1, p, 2 * p - 1, 2 * p][u.choice(4)].max(1)),
            (Kind::Saturating, p + 2),
        ],
        _ => vec![],
    };
    let extra = u.choice(4);
    for _ in 0..extra {
        let kind = [Kind::Saturating, Kind::Below, Kind::Idle, Kind::Mid][u.choice(4)];
        let secs = [1, p, 2 * p, 2 * p + 2, (2 * p).saturating_sub(1).max(1), 3][u.choice(6)];
        let pos = u.choice(plan.len() + 1);
        plan.insert(pos, (kind, secs));
    }
    if plan.is_empty() {
        plan.push((Kind::Saturating, 2 * p + 2));
    }
    for (k, s) in plan {
        if total + s > budget {
            break;
        }
        total += s;
        phases.push((k, s));
    }
    if phases.is_empty() {
        phases.push((Kind::Saturating, (2 * p + 2).min(budget)));
    }
    // drawn from the tail: the layout above stays what it was
    let sc = [2u32, 3, 4, 0][u.tail_choice(4)];
    let sc_eff = if sc == 0 { 3 } else { sc };
    let sq = (2 * sc_eff).max(4 + u.tail_choice(60) as u32);
    let sp = 1 + u.tail_choice(6) as u32;
    let extra_idle = [0u32, 0, 1, 3][u.tail_choice(4)];
    Case { q, cold_factor, period_s, grid_ms, phases, sweep: (sq, sc, sp, extra_idle) }
}

impl Property for C08 {
    fn id(&self) -> &'static str {
        "C08"
    }
    fn budget(&self, tier: Tier) -> Budget {
        match tier {
            Tier::Quick => Budget { cases: 40, shards: 16, min_len: 16, max_len: 48 },
            Tier::Thorough => Budget { cases: 600, shards: 16, min_len: 16, max_len: 48 },
        }
    }
    fn rule(&self) -> String {
        "bytes -> WarmUp/Reject rule on the default 1 s window (q 30..500 with q >= 10c, cold factor 0 (default 3) or 2..6, period 1..20 s) and a demand profile of 1-7 phases (saturating: ceil(q*grid/1000)+1 requests per grid tick; mid: q/2 per second; below: floor(q/c)-2 per second evenly spaced; idle), phases starting on wall-second boundaries, arrival grid 1..20 ms re-anchored every second, total <= 5p+30 virtual seconds; oracle = trajectory invariants from the statement over A_k (admissions in wall second k): never more than q in a bucket-aligned window; saturating: A_k >= floor(q/c)-1, A_{k+1} >= A_k - 1, cold start A_1 in [floor(q/c)-1, ceil(q/c)+1], A_k >= q-1 reached within 2p+2 s and kept; cold again after >= 2p idle seconds; below q/c demand is never rejected; plus, per case, a stop-point sweep on a small rule (q 4..63, c in {2,3,4,default}, p 1..6): for every k in 1..=2p+3 a fresh rule is saturated for exactly k seconds, idle for 2p(+0/1/3) seconds and must then admit about q/c in its first saturating second; non-trivial = a saturating phase >= p seconds and an idle gap >= 2p followed by more traffic; distinct = distinct decoded cases".into()
    }
    fn assumptions(&self) -> Vec<String> {
        vec![
            "virtual clock; phases aligned to wall seconds (the calculator synchronises its tokens on wall-second boundaries, the frame in which 'per statistic interval' is meaningful)".into(),
            "slack of one admission absorbs integer truncation of warning/max tokens (q >= 10c as quantified)".into(),
            "a phase is cold if it is the first traffic of the rule or follows >= 2p idle seconds; no cold assertion after shorter gaps".into(),
        ]
    }
    fn run(&self, bytes: &[u8], cfg: &RunCfg) -> Verdict {
        let mut u = Bytes::new(bytes);
        let case = decode(&mut u);
        run_case(&case, cfg)
    }
}

/// "After an idle period of at least 2*p seconds it is cold again" must hold wherever the demand stopped: for every
/// k in 1..=2p+3 a fresh rule is saturated for exactly k wall seconds, left idle, and offered saturating demand again.
fn stop_sweep(case: &Case) -> Result<u64, (String, String)> {
    let (q, cf, p, extra_idle) = (case.sweep.0 as u64, case.sweep.1, case.sweep.2 as u64, case.sweep.3 as u64);
    let c = if cf == 0 { 3 } else { cf as u64 };
    let (floor_qc, ceil_qc) = (q / c, (q + c - 1) / c);
    let grid = 50u64;
    let per_tick = (q * grid + 999) / 1000 + 1;
    let mut builds = 0u64;
    for k in 1..=(2 * p + 3) {
        let t0 = clock::new_case_epoch();
        let res = util::fresh_name("c08s");
        flow::load_rules(vec![Arc::new(flow::Rule {
            resource: res.clone(),
            threshold: q as f64,
            calculate_strategy: flow::CalculateStrategy::WarmUp,
            control_strategy: flow::ControlStrategy::Reject,
            warm_up_period_sec: p as u32,
            warm_up_cold_factor: cf,
            ..Default::default()
        })]);
        let mut second = |base: u64| -> u64 {
            let mut adm = 0u64;
            let mut tick = 0u64;
            while tick * grid < 1000 {
                clock::set_ms(base + tick * grid);
                for _ in 0..per_tick {
                    builds += 1;
                    if let Ok(e) = build(Req::new(&res, 1)) {
                        e.exit();
                        adm += 1;
                    }
                }
                tick += 1;
            }
            adm
        };
        let mut a: Vec<u64> = Vec::new();
        for s in 0..k {
            a.push(second(t0 + s * 1000));
        }
        let idle = 2 * p + extra_idle;
        let after = second(t0 + (k + idle) * 1000);
        if after + 1 < floor_qc || after > ceil_qc + 1 {
            return Err((
                "cold-start-rate|after-idle".into(),
                format!(
                    "stop-point sweep, rule q={} c={} p={}: saturating demand for {} s (admitted per second {:?}), idle for {} s >= 2p, then the first saturating second admitted {}, expected about q/c = {}..{}",
                    q, c, p, k, a, idle, after, floor_qc, ceil_qc
                ),
            ));
        }
    }
    Ok(builds)
}

pub fn run_case(case: &Case, cfg: &RunCfg) -> Verdict {
    const ID: &str = "C08";
    util::reset_all();
    let sweep_builds = match stop_sweep(case) {
        Ok(n) => n,
        Err((key, detail)) => fail!(ID, "cold-start-rate", key, case, "{}", detail),
    };
    util::reset_all();
    let t0 = clock::new_case_epoch(); // multiple of 10 s, hence of 1 s
    let res = util::fresh_name("c08");
    flow::load_rules(vec![Arc::new(flow::Rule {
        resource: res.clone(),
        threshold: case.q as f64,
        calculate_strategy: flow::CalculateStrategy::WarmUp,
        control_strategy: flow::ControlStrategy::Reject,
        warm_up_period_sec: case.period_s,
        warm_up_cold_factor: case.cold_factor,
        ..Default::default()
    })]);
    let q = case.q as u64;
    let c = if case.cold_factor == 0 { 3 } else { case.cold_factor } as u64;
    let p = case.period_s as u64;
    let floor_qc = q / c;
    let ceil_qc = (q + c - 1) / c;
    let mut sec_base = t0;
    let mut idle_run: u64 = u64::MAX; // idle seconds before the current phase (MAX = never any traffic)
    // admissions per 500 ms bucket (for the window bound)
    let mut buckets: std::collections::HashMap<u64, u64> = Default::default();
    let mut builds = 0u64;
    let (mut long_sat, mut cold_again, mut below_phase, mut short_gap) = (false, false, false, false);
    let mut had_traffic = false;

    let mut request = |t: u64, buckets: &mut std::collections::HashMap<u64, u64>| -> Result<bool, String> {
        clock::set_ms(t);
        builds += 1;
        match build(Req::new(&res, 1)) {
            Ok(e) => {
                e.exit();
                *buckets.entry(t / 500).or_insert(0) += 1;
                let w = buckets.get(&(t / 500)).cloned().unwrap_or(0) + buckets.get(&(t / 500 - 1)).cloned().unwrap_or(0);
                if w > q {
                    return Err(format!("window ending in bucket {} holds {} admissions > q = {}", t / 500, w, q));
                }
                Ok(true)
            }
            Err(_) => Ok(false),
        }
    };

    for (pi, (kind, secs)) in case.phases.iter().enumerate() {
        let secs = *secs as u64;
        match kind {
            Kind::Idle => {
                sec_base += secs * 1000;
                if idle_run != u64::MAX {
                    idle_run += secs;
                }
                continue;
            }
            Kind::Below | Kind::Mid => {
                let offered = if *kind == Kind::Below { floor_qc.saturating_sub(2).max(1) } else { q / 2 };
                for s in 0..secs {
                    for i in 0..offered {
                        let t = sec_base + s * 1000 + i * 1000 / offered;
                        match request(t, &mut buckets) {
                            Err(e) => fail!(ID, "more-than-threshold", "more-than-threshold", case, "phase {} second {}: {}", pi, s, e),
                            Ok(false) if *kind == Kind::Below => {
                                fail!(ID, "rejected-below-cold-rate", "rejected-below-cold-rate", case,
                                    "phase {} (offered {} per second, evenly spaced, q/c = {}): request {} of second {} rejected", pi, offered, floor_qc, i, s);
                            }
                            _ => {}
                        }
                    }
                }
                if *kind == Kind::Below {
                    below_phase = true;
                }
                had_traffic = true;
                sec_base += secs * 1000;
                idle_run = 0;
            }
            Kind::Saturating => {
                let cold = idle_run == u64::MAX || idle_run >= 2 * p;
                if idle_run != u64::MAX && idle_run > 0 && idle_run < 2 * p {
                    short_gap = true;
                }
                if cold && had_traffic {
                    cold_again = true;
                }
                if secs >= p {
                    long_sat = true;
                }
                let grid = case.grid_ms as u64;
                let per_tick = (q * grid + 999) / 1000 + 1;
                let mut a: Vec<u64> = Vec::new();
                for s in 0..secs {
                    let mut adm = 0u64;
                    let mut tick = 0u64;
                    while tick * grid < 1000 {
                        let t = sec_base + s * 1000 + tick * grid;
                        for _ in 0..per_tick {
                            match request(t, &mut buckets) {
                                Err(e) => fail!(ID, "more-than-threshold", "more-than-threshold", case, "phase {} second {}: {}", pi, s, e),
                                Ok(true) => adm += 1,
                                Ok(false) => {}
                            }
                        }
                        tick += 1;
                    }
                    a.push(adm);
                }
                // ---- trajectory invariants
                for (k, ak) in a.iter().enumerate() {
                    if *ak + 1 < floor_qc {
                        fail!(ID, "less-than-cold-rate", "less-than-cold-rate", case,
                            "saturating phase {} second {}: {} admissions < floor(q/c) - 1 = {} (per second: {:?})", pi, k, ak, floor_qc - 1, a);
                    }
                    if k + 1 < a.len() && a[k + 1] + 1 < *ak {
                        fail!(ID, "allowance-decreased", "allowance-decreased", case,
                            "saturating phase {}: admissions fell from {} to {} between seconds {} and {} (per second: {:?})", pi, ak, a[k + 1], k, k + 1, a);
                    }
                }
                if cold && !a.is_empty() {
                    if a[0] + 1 < floor_qc || a[0] > ceil_qc + 1 {
                        fail!(ID, "cold-start-rate", if idle_run == u64::MAX { "cold-start-rate|first" } else { "cold-start-rate|after-idle" }, case,
                            "cold saturating phase {} (idle before: {} s): first second admitted {}, expected about q/c = {}..{} (per second: {:?})", pi, if idle_run == u64::MAX { 0 } else { idle_run }, a[0], floor_qc, ceil_qc, a);
                    }
                }
                if cold {
                    // reaches q within 2p + 2 seconds and stays there
                    let horizon = (2 * p + 2) as usize;
                    let reached = a.iter().position(|x| *x + 1 >= q);
                    if a.len() >= horizon {
                        match reached {
                            Some(i) if i < horizon => {}
                            _ => fail!(ID, "not-warm-in-time", "not-warm-in-time", case,
                                "cold saturating phase {}: q - 1 = {} admissions per second not reached within 2p + 2 = {} seconds (per second: {:?})", pi, q - 1, horizon, a),
                        }
                    }
                }
                if let Some(i) = a.iter().position(|x| *x + 1 >= q) {
                    if let Some(j) = a[i..].iter().position(|x| *x + 1 < q) {
                        fail!(ID, "fell-below-threshold-after-warm", "fell-below-threshold-after-warm", case,
                            "saturating phase {}: reached q at second {} but second {} admitted only {} (per second: {:?})", pi, i, i + j, a[i + j], a);
                    }
                }
                had_traffic = true;
                sec_base += secs * 1000;
                idle_run = 0;
            }
        }
    }
    let mut classes = Vec::new();
    if case.cold_factor == 0 { classes.push("default-cold-factor"); }
    if case.period_s == 1 { classes.push("period-1"); }
    if short_gap { classes.push("idle-gap-under-2p"); }
    if below_phase { classes.push("below-cold-rate-phase"); }
    if cold_again { classes.push("cold-again-after-idle"); }
    if long_sat { classes.push("saturating-phase-at-least-p"); }
    Verdict::Pass(CaseReport {
        nontrivial: long_sat && cold_again,
        classes,
        digest: digest_of(case),
        decoded: if cfg.want_decoded { serde_json::to_value(case).ok() } else { None },
        known_hits: vec![],
        counters: vec![("builds", builds), ("stop_sweep_builds", sweep_builds)],
    })
}
