//! C07 — throttling paces admissions, bounds queueing and really delays the caller.
use super::common::*;
use crate::engine::*;
use crate::fail;
use crate::util::{self, clock};
use sentinel_core::base::{ResourceType, StatNode, TokenResult};
use sentinel_core::{flow, hotspot, stat};
use serde::Serialize;
use std::collections::HashMap;
use std::sync::Arc;

pub struct C07;

#[derive(Debug, Clone, Serialize)]
pub struct Case {
    /// false = flow throttling, true = hotspot QPS throttling
    pub hotspot: bool,
    /// false = Controller::perform_checking (no sleep), true = EntryBuilder::build (virtual sleep)
    pub end_to_end: bool,
    /// rate per interval (flow: may be fractional; hotspot: integer)
    pub rate: f64,
    /// flow: stat_interval_ms (0 = default 1000); hotspot: duration in seconds * 1000
    pub interval_ms: u64,
    pub max_queue_ms: u64,
    pub nvalues: usize,
    /// (arrival choice, free delta ns, value, batch)
    pub reqs: Vec<(u8, u64, usize, u32)>,
    /// further flow throttling rules on the same resource (end-to-end flow mode only): (rate, interval ms, max queueing ms)
    pub extra_rules: Vec<(f64, u64, u64)>,
}

const VALUES: [&str; 3] = ["x", "y", "z"];

pub fn decode(u: &mut Bytes) -> Case {
    let hotspot = u.choice(5) >= 3;
    let end_to_end = u.bool();
    let (rate, interval_ms, nvalues) = if hotspot {
        let q = [10u64, 0, 1, 2, 3, 7, 50, 100][u.choice(8)] as f64;
        (q, (1 + u.choice(3) as u64) * 1000, 1 + u.choice(3))
    } else {
        let r = [10.0, 0.0, 1.0, 2.5, 3.0, 7.0, 100.0, 333.0, 1000.0][u.choice(9)];
        (r, [1000u64, 0, 100, 10_000][u.choice(4)], 1)
    };
    let max_queue_ms = [500u64, 0, 1, 10, 2000, 100][u.choice(6)];
    let n = 3 + u.choice(50);
    let mut reqs = Vec::new();
    for _ in 0..n {
        let batch = match u.choice(8) {
            0..=4 => 1,
            5 => 2,
            6 => 3,
            _ => 1 + u.choice(12) as u32,
        };
        reqs.push((u.choice(10) as u8, u.u16() as u64 * 40_000, u.choice(nvalues), batch));
    }
    // drawn from the tail so that the layout above (and the committed replays) stay as they were
    let mut extra_rules = Vec::new();
    if !hotspot && end_to_end {
        let k = [0usize, 0, 1, 1, 2][u.tail_choice(5)];
        for _ in 0..k {
            let r = [10.0, 2.5, 1.0, 3.0, 7.0, 100.0, 0.5, 1000.0][u.tail_choice(8)];
            let i = [1000u64, 0, 100, 10_000][u.tail_choice(4)];
            let m = [500u64, 0, 10, 2000, 100, 5000][u.tail_choice(6)];
            extra_rules.push((r, i, m));
        }
    }
    Case { hotspot, end_to_end, rate, interval_ms, max_queue_ms, nvalues, reqs, extra_rules }
}

impl Property for C07 {
    fn id(&self) -> &'static str {
        "C07"
    }
    fn budget(&self, tier: Tier) -> Budget {
        match tier {
            Tier::Quick => Budget { cases: 5000, shards: 16, min_len: 24, max_len: 260 },
            Tier::Thorough => Budget { cases: 120_000, shards: 16, min_len: 24, max_len: 260 },
        }
    }
    fn fuzz_targets(&self) -> Vec<(&'static str, u64, usize)> {
        vec![("prop", 300_000, 260)]
    }
    fn rule(&self) -> String {
        "bytes -> flow Direct/Throttling rule (rate in {0,1,2.5,3,7,10,100,333,1000} per {default,100,1000,10000} ms) or hotspot QPS/Throttling rule (q in {0,1,2,3,7,10,50,100} per 1-3 s, 1-3 values), max queueing in {0,1,10,100,500,2000} ms, two drive modes (Controller::perform_checking without sleep / EntryBuilder::build with virtual sleep), 3-52 requests with batch 1..12 and arrival from a menu (same instant, just before / exactly at / just after the previously scheduled slot and the slot after it, free); oracle = integer-time PacerModel: spacing of scheduled times >= batch*interval/rate - eps, wait <= max + eps, rejection only if rate 0, batch > rate or needed wait > max - eps, must admit if needed wait < max - eps, caller resumes no earlier than its slot (clock after build - scheduled >= -eps); eps 2 ns (flow) / 1 ms (hotspot); a fifth of the end-to-end flow cases carry 1-2 further throttling rules on the same resource (consultation order unspecified): there the caller must resume no earlier than every rule's earliest possible slot (per-rule lower bound of the schedule), is never held longer than the sum of the maximum queueing times, and a rejection needs a rule whose wait could exceed its maximum; non-trivial = >= 1 queued admission, >= 1 queue-overflow rejection and >= 2 consecutive admissions closer than the gap in arrival time; distinct = distinct decoded cases".into()
    }
    fn assumptions(&self) -> Vec<String> {
        vec![
            "virtual clock hook incl. virtual sleep; TokenResult::Wait carries nanoseconds as documented".into(),
            "a needed wait within eps of the maximum queueing time may be queued or rejected".into(),
            "requests are sequential".into(),
        ]
    }
    fn run(&self, bytes: &[u8], cfg: &RunCfg) -> Verdict {
        let mut u = Bytes::new(bytes);
        let case = decode(&mut u);
        run_case(&case, cfg)
    }
}

/// Several throttling rules on one resource, end to end. The order in which the rules are consulted is not
/// specified (and a conforming implementation may hold the caller for the sum or for the maximum of the waits),
/// so the oracle keeps, per rule, a LOWER bound of its last scheduled time (`lb`: every admission is scheduled
/// no earlier than its arrival and no earlier than the previous slot plus the pace) and an UPPER bound (`ub`:
/// no slot handed out so far lies after the instant the last build() returned). Clauses: an admitted caller
/// resumes no earlier than every rule's earliest possible slot; nobody is held longer than the sum of the
/// maximum queueing times; a rejection needs a rule whose wait could exceed its maximum.
fn run_multi(case: &Case, cfg: &RunCfg) -> Verdict {
    const ID: &str = "C07";
    util::reset_all();
    clock::new_case_epoch();
    let res = util::fresh_name("c07m");
    let mut specs: Vec<(f64, u64, u64)> = vec![(case.rate, case.interval_ms, case.max_queue_ms)];
    specs.extend(case.extra_rules.iter().cloned());
    let rules: Vec<Arc<flow::Rule>> = specs
        .iter()
        .map(|(r, i, m)| {
            Arc::new(flow::Rule {
                resource: res.clone(),
                threshold: *r,
                calculate_strategy: flow::CalculateStrategy::Direct,
                control_strategy: flow::ControlStrategy::Throttling,
                max_queueing_time_ms: *m as u32,
                stat_interval_ms: *i as u32,
                ..Default::default()
            })
        })
        .collect();
    flow::load_rules(rules);
    // equal rules collapse into one controller: judge the distinct ones
    let active: Vec<(f64, i128, i128)> = flow::get_traffic_controller_list_for(&res)
        .iter()
        .map(|tc| {
            let r = tc.rule();
            let i = if r.stat_interval_ms == 0 { 1000 } else { r.stat_interval_ms } as i128 * 1_000_000;
            (r.threshold, i, r.max_queueing_time_ms as i128 * 1_000_000)
        })
        .collect();
    if active.is_empty() {
        fail!(ID, "rule-not-loaded", "rule-not-loaded", case, "no controller after load");
    }
    let eps: i128 = 4 * active.len() as i128;
    let sum_max: i128 = active.iter().map(|a| a.2).sum();
    let mut lb: Vec<Option<i128>> = vec![None; active.len()];
    let mut ub: Option<i128> = None;
    let (mut queued, mut overflow, mut n_adm, mut binding_not_first) = (0u64, 0u64, 0u64, 0u64);
    let (rate0, int0, max0) = active[0];
    for (ri, (choice, free, _v, batch)) in case.reqs.iter().enumerate() {
        let now0 = clock::now_ns() as i128;
        let n = *batch as f64;
        let gap_of = |a: &(f64, i128, i128)| -> i128 { if a.0 > 0.0 { (n / a.0 * a.1 as f64) as i128 } else { 0 } };
        let gap0 = gap_of(&(rate0, int0, max0));
        let target: i128 = match (ub, choice) {
            (_, 0) | (_, 1) | (None, _) => now0 + if *choice <= 1 { 0 } else { *free as i128 },
            (Some(l), 2) => l - 1,
            (Some(l), 3) => l,
            (Some(l), 4) => l + 1,
            (Some(l), 5) => l + gap0 - 1,
            (Some(l), 6) => l + gap0,
            (Some(l), 7) => l + gap0 + 1,
            (Some(l), 8) => l + gap0 - max0,
            (Some(_), _) => now0 + *free as i128,
        };
        if target > now0 {
            clock::set_ns(target as u64);
        }
        let now = clock::now_ns() as i128;
        let always_reject = active.iter().any(|a| a.0 <= 0.0 || n > a.0);
        let r = build(Req::new(&res, *batch));
        let after = clock::now_ns() as i128;
        let slept = after - now;
        if slept > sum_max + eps {
            fail!(ID, "queued-beyond-max", "flow|multi|queued-beyond-max", case,
                "request {}: the caller was held {} ns, more than the sum of the maximum queueing times {} ns", ri, slept, sum_max);
        }
        match r {
            Ok(e) => {
                e.exit();
                if always_reject {
                    fail!(ID, "admitted-impossible-request", "flow|multi|admitted-impossible-request", case,
                        "request {}: batch {} admitted under rules {:?}", ri, n, active);
                }
                let mut slowest = 0usize;
                let mut slowest_slot = i128::MIN;
                for (k, a) in active.iter().enumerate() {
                    let slot = lb[k].map(|l| (l + gap_of(a)).max(now)).unwrap_or(now);
                    if after < slot - eps {
                        fail!(ID, "not-delayed", "flow|multi|not-delayed", case,
                            "request {} (batch {}): build() returned {} ns after the request, but rule {:?} (rate, interval ns, max queueing ns) cannot have scheduled it earlier than {} ns after it (its previous slot was no earlier than {} ns before the request, pace {} ns); rules in consultation order {:?}",
                            ri, n, slept, a, slot - now, now - lb[k].unwrap_or(now), gap_of(a), active);
                    }
                    if slot > slowest_slot {
                        slowest_slot = slot;
                        slowest = k;
                    }
                    lb[k] = Some(slot);
                }
                if slept > 0 {
                    queued += 1;
                    if slowest != active.len() - 1 {
                        binding_not_first += 1;
                    }
                }
                n_adm += 1;
            }
            Err(m) => {
                let bt = block_type_of(&m);
                if bt != "Flow" {
                    fail!(ID, "wrong-block-type", "flow|multi|wrong-block-type", case, "request {} blocked as {}", ri, bt);
                }
                if !always_reject {
                    let could_overflow = active.iter().any(|a| {
                        let needed = ub.map(|u| (u + gap_of(a) - now).max(0)).unwrap_or(0);
                        needed > 0 && needed >= a.2 - eps
                    });
                    if !could_overflow {
                        fail!(ID, "spurious-rejection", "flow|multi|spurious-rejection", case,
                            "request {} (batch {}): rejected although no rule can need a wait beyond its maximum queueing time (no slot handed out so far lies after {} ns before the request); rules {:?}",
                            ri, n, ub.map(|u| now - u).unwrap_or(0), active);
                    }
                    overflow += 1;
                }
            }
        }
        ub = Some(ub.map(|u| u.max(after)).unwrap_or(after));
    }
    let mut classes = vec!["flow-throttling", "end-to-end", "several-throttling-rules"];
    if queued > 0 { classes.push("queued-admission"); }
    if overflow > 0 { classes.push("queue-overflow-rejection"); }
    if binding_not_first > 0 { classes.push("slowest-rule-not-consulted-last"); }
    Verdict::Pass(CaseReport {
        nontrivial: queued >= 1 && overflow >= 1 && binding_not_first >= 1,
        classes,
        digest: digest_of(case),
        decoded: if cfg.want_decoded { serde_json::to_value(case).ok() } else { None },
        known_hits: vec![],
        counters: vec![("queued_admissions", queued), ("overflow_rejections", overflow), ("admissions", n_adm)],
    })
}

pub fn run_case(case: &Case, cfg: &RunCfg) -> Verdict {
    const ID: &str = "C07";
    if !case.extra_rules.is_empty() {
        return run_multi(case, cfg);
    }
    util::reset_all();
    let t0_ms = clock::new_case_epoch();
    let res = util::fresh_name("c07");
    let interval_ns: i128 = if case.hotspot {
        case.interval_ms as i128 * 1_000_000
    } else if case.interval_ms == 0 {
        1_000_000_000
    } else {
        case.interval_ms as i128 * 1_000_000
    };
    let max_ns: i128 = case.max_queue_ms as i128 * 1_000_000;
    let eps: i128 = if case.hotspot { 1_000_000 } else { 2 };
    let fam = if case.hotspot { "hotspot" } else { "flow" };
    if case.hotspot {
        hotspot::load_rules(vec![Arc::new(hotspot::Rule {
            resource: res.clone(),
            metric_type: hotspot::MetricType::QPS,
            control_strategy: hotspot::ControlStrategy::Throttling,
            param_index: 0,
            threshold: case.rate as u64,
            max_queueing_time_ms: case.max_queue_ms,
            duration_in_sec: case.interval_ms / 1000,
            ..Default::default()
        })]);
    } else {
        flow::load_rules(vec![Arc::new(flow::Rule {
            resource: res.clone(),
            threshold: case.rate,
            calculate_strategy: flow::CalculateStrategy::Direct,
            control_strategy: flow::ControlStrategy::Throttling,
            max_queueing_time_ms: case.max_queue_ms as u32,
            stat_interval_ms: case.interval_ms as u32,
            ..Default::default()
        })]);
    }
    let node = stat::get_or_create_resource_node(&res, &ResourceType::Common);
    let flow_tc = if !case.hotspot { flow::get_traffic_controller_list_for(&res).into_iter().next() } else { None };
    let hot_tc = if case.hotspot { hotspot::get_traffic_controller_list_for(&res).into_iter().next() } else { None };
    if flow_tc.is_none() && hot_tc.is_none() {
        fail!(ID, "rule-not-loaded", "rule-not-loaded", case, "no controller after load");
    }
    // per value: last scheduled time (ns, absolute)
    let mut last: HashMap<usize, i128> = HashMap::new();
    let (mut queued, mut overflow, mut close_pairs, mut n_adm) = (0u64, 0u64, 0u64, 0u64);
    let mut last_arrival_admitted: HashMap<usize, i128> = HashMap::new();

    for (ri, (choice, free, v, batch)) in case.reqs.iter().enumerate() {
        let now0 = clock::now_ns() as i128;
        let n = *batch as f64;
        let gap: i128 = if case.rate > 0.0 { (n / case.rate * interval_ns as f64) as i128 } else { 0 };
        // arrival: relative to the previously scheduled slot of this value
        let unit: i128 = if case.hotspot { 1_000_000 } else { 1 };
        // hotspot pacing works on the millisecond clock: keep its arrivals on whole milliseconds
        let free_ns: i128 = if case.hotspot { ((*free / 40_000) % 2500) as i128 * 1_000_000 } else { *free as i128 };
        let gap_u = if case.hotspot { (gap / unit) * unit } else { gap };
        let target: i128 = match (last.get(v), choice) {
            (_, 0) | (_, 1) | (None, _) => now0 + if *choice <= 1 { 0 } else { free_ns },
            (Some(l), 2) => *l - unit,
            (Some(l), 3) => *l,
            (Some(l), 4) => *l + unit,
            (Some(l), 5) => *l + gap_u - unit,
            (Some(l), 6) => *l + gap_u,
            (Some(l), 7) => *l + gap_u + unit,
            (Some(l), 8) => *l + gap_u - max_ns,
            (Some(_), _) => now0 + free_ns,
        };
        if target > now0 {
            clock::set_ns(target as u64);
        }
        let now = clock::now_ns() as i128;
        // what the pacer needs
        let needed: i128 = match last.get(v) {
            Some(l) => (*l + gap - now).max(0),
            None => 0,
        };
        let always_reject = case.rate <= 0.0 || (n > case.rate && !case.hotspot);
        // --- drive
        let mut wait_reported: Option<i128> = None;
        let admitted: bool;
        let mut err_text = String::new();
        if case.end_to_end {
            let mut req = Req::new(&res, *batch);
            req.args = Some(vec![VALUES[*v].to_string()]);
            match build(req) {
                Ok(e) => {
                    admitted = true;
                    e.exit();
                }
                Err(m) => {
                    admitted = false;
                    err_text = m;
                }
            }
        } else {
            let r = if let Some(tc) = &flow_tc {
                tc.perform_checking(node.clone() as Arc<dyn StatNode>, *batch, 0)
            } else {
                hot_tc.as_ref().unwrap().perform_checking(VALUES[*v].to_string(), *batch)
            };
            match r {
                TokenResult::Pass => {
                    admitted = true;
                    wait_reported = Some(0);
                }
                TokenResult::Wait(ns) => {
                    admitted = true;
                    wait_reported = Some(ns as i128);
                }
                TokenResult::Blocked(e) => {
                    admitted = false;
                    err_text = format!("block_type: {:?}", e.block_type());
                }
            }
        }
        let after = clock::now_ns() as i128;
        if admitted {
            if always_reject {
                fail!(ID, "admitted-impossible-request", format!("{}|admitted-impossible-request", fam), case,
                    "request {}: batch {} admitted under rate {}", ri, n, case.rate);
            }
            // scheduled time: reported wait (direct) or the instant the caller resumed (end to end)
            let sched = match wait_reported {
                Some(w) => now + w,
                None => after,
            };
            let wait = sched - now;
            if let Some(l) = last.get(v) {
                if sched - *l < gap - eps {
                    fail!(ID, "too-close", format!("{}|{}|too-close", fam, if case.end_to_end { "e2e" } else { "direct" }), case,
                        "request {} (value {}, batch {}): scheduled {} ns after the previous admission, the pace requires {} ns (arrived {} ns after it, {} {} ns)",
                        ri, v, n, sched - *l, gap, now - *l, if case.end_to_end { "build() returned after" } else { "reported wait" }, wait);
                }
            }
            if wait > max_ns + eps {
                fail!(ID, "queued-beyond-max", format!("{}|queued-beyond-max", fam), case,
                    "request {}: waits {} ns > max queueing {} ns", ri, wait, max_ns);
            }
            if case.end_to_end {
                // the caller must really have been held until its slot
                let slot = last.get(v).map(|l| (*l + gap).max(now)).unwrap_or(now);
                if after < slot - eps {
                    fail!(ID, "not-delayed", format!("{}|not-delayed", fam), case,
                        "request {}: build() returned at +{} ns but its slot is +{} ns", ri, after - now, slot - now);
                }
            }
            if wait > 0 {
                queued += 1;
            }
            if let Some(a) = last_arrival_admitted.get(v) {
                if now - *a < gap {
                    close_pairs += 1;
                }
            }
            last_arrival_admitted.insert(*v, now);
            last.insert(*v, sched);
            n_adm += 1;
        } else {
            let bt = block_type_of(&err_text);
            let want = if case.hotspot { "HotSpotParamFlow" } else { "Flow" };
            if bt != want {
                fail!(ID, "wrong-block-type", format!("{}|wrong-block-type", fam), case, "request {} blocked as {}", ri, bt);
            }
            if !always_reject {
                if needed < max_ns - eps || needed == 0 {
                    fail!(ID, "spurious-rejection", format!("{}|spurious-rejection", fam), case,
                        "request {} (value {}, batch {}): rejected although it needs to wait only {} ns (max queueing {} ns)", ri, v, n, needed, max_ns);
                }
                overflow += 1;
            }
            if after != now {
                fail!(ID, "rejected-but-delayed", format!("{}|rejected-but-delayed", fam), case, "request {}: rejected after sleeping {} ns", ri, after - now);
            }
        }
    }
    let _ = t0_ms;
    let mut classes = vec![
        if case.hotspot { "hotspot-throttling" } else { "flow-throttling" },
        if case.end_to_end { "end-to-end" } else { "direct" },
    ];
    if queued > 0 { classes.push("queued-admission"); }
    if overflow > 0 { classes.push("queue-overflow-rejection"); }
    if case.rate == 0.0 { classes.push("rate-0"); }
    Verdict::Pass(CaseReport {
        nontrivial: queued >= 1 && overflow >= 1 && close_pairs >= 1,
        classes,
        digest: digest_of(case),
        decoded: if cfg.want_decoded { serde_json::to_value(case).ok() } else { None },
        known_hits: vec![],
        counters: vec![("queued_admissions", queued), ("overflow_rejections", overflow), ("admissions", n_adm)],
    })
}
