//! C03 — circuit breakers follow the Closed / Open / Half-Open state machine.
use super::common::*;
use crate::engine::*;
use crate::fail;
use crate::model::breaker::{Breaker, Spec, St, Strategy, Transition};
use crate::util::{self, clock};
use sentinel_core::base::Snapshot;
use sentinel_core::circuitbreaker::{self as cb, State, StateChangeListener};
use sentinel_core::isolation;
use serde::Serialize;
use std::sync::{Arc, Mutex};

pub struct C03;

#[derive(Debug, Clone, Serialize)]
pub enum Ev {
    Enter,
    Complete { k: usize, error: bool },
    Advance { dt: u64 },
}

#[derive(Debug, Clone, Serialize)]
pub struct Case {
    pub phase_ms: u64,
    pub rules: Vec<Spec>,
    pub isolation: Option<u32>,
    pub events: Vec<Ev>,
}

pub fn decode_spec(u: &mut Bytes, id: &str) -> Spec {
    let strategy = [Strategy::ErrorCount, Strategy::ErrorRatio, Strategy::SlowRequestRatio][u.choice(3)];
    let threshold = match strategy {
        Strategy::ErrorCount => [1.0, 2.0, 3.0, 4.0, 1.5][u.choice(5)],
        _ => [0.5, 0.0, 0.25, 1.0 / 3.0, 2.0 / 3.0, 1.0][u.choice(6)],
    };
    Spec {
        id: id.to_string(),
        strategy,
        retry_timeout_ms: [300u64, 50, 1500][u.choice(3)],
        min_request_amount: u.choice(5) as u64,
        stat_interval_ms: [1000u64, 200][u.choice(2)],
        bucket_count: [1u64, 2, 4][u.choice(3)],
        max_allowed_rt_ms: [10u64, 0][u.choice(2)],
        threshold,
    }
}

pub fn decode(u: &mut Bytes) -> Case {
    let phase_ms = [0u64, 1, 499, 137, 50, 999][u.choice(6)];
    let nr = 1 + (u.choice(3) == 2) as usize;
    let mut rules = Vec::new();
    for i in 0..nr {
        rules.push(decode_spec(u, &format!("b{}", i)));
    }
    let isolation = match u.choice(4) {
        2 | 3 => Some(1 + u.choice(2) as u32),
        _ => None,
    };
    let n = 4 + u.choice(37);
    let mut events = Vec::new();
    for _ in 0..n {
        let r = &rules[u.choice(rules.len())];
        let bucket = r.stat_interval_ms / r.bucket_count;
        match u.choice(10) {
            0..=3 => events.push(Ev::Enter),
            4..=6 => events.push(Ev::Complete { k: u.choice(6), error: u.bool() }),
            _ => {
                let dt = match u.choice(12) {
                    0 => 1,
                    1 => bucket - 1,
                    2 => bucket,
                    3 => r.stat_interval_ms / 2,
                    4 => r.stat_interval_ms,
                    5 => r.stat_interval_ms + 1,
                    6 => r.retry_timeout_ms - 1,
                    7 => r.retry_timeout_ms,
                    8 => r.retry_timeout_ms + 1,
                    9 => r.max_allowed_rt_ms,
                    10 => r.max_allowed_rt_ms + 1,
                    _ => u.range(0, 255) * 7,
                };
                events.push(Ev::Advance { dt });
            }
        }
    }
    Case { phase_ms, rules, isolation, events }
}

pub struct RecListener(pub Mutex<Vec<Transition>>);

fn st(s: State) -> St {
    match s {
        State::Closed => St::Closed,
        State::HalfOpen => St::HalfOpen,
        State::Open => St::Open,
    }
}

impl StateChangeListener for RecListener {
    fn on_transform_to_closed(&self, prev: State, rule: Arc<cb::Rule>) {
        self.0.lock().unwrap().push(Transition { rule_id: rule.id.clone(), from: st(prev), to: St::Closed });
    }
    fn on_transform_to_open(&self, prev: State, rule: Arc<cb::Rule>, _snapshot: Option<Arc<Snapshot>>) {
        self.0.lock().unwrap().push(Transition { rule_id: rule.id.clone(), from: st(prev), to: St::Open });
    }
    fn on_transform_to_half_open(&self, prev: State, rule: Arc<cb::Rule>) {
        self.0.lock().unwrap().push(Transition { rule_id: rule.id.clone(), from: st(prev), to: St::HalfOpen });
    }
}

pub fn to_rule(res: &str, s: &Spec) -> cb::Rule {
    cb::Rule {
        id: s.id.clone(),
        resource: res.to_string(),
        strategy: match s.strategy {
            Strategy::SlowRequestRatio => cb::BreakerStrategy::SlowRequestRatio,
            Strategy::ErrorRatio => cb::BreakerStrategy::ErrorRatio,
            Strategy::ErrorCount => cb::BreakerStrategy::ErrorCount,
        },
        retry_timeout_ms: s.retry_timeout_ms as u32,
        min_request_amount: s.min_request_amount,
        stat_interval_ms: s.stat_interval_ms as u32,
        stat_sliding_window_bucket_count: s.bucket_count as u32,
        max_allowed_rt_ms: s.max_allowed_rt_ms,
        threshold: s.threshold,
    }
}

impl Property for C03 {
    fn id(&self) -> &'static str {
        "C03"
    }
    fn budget(&self, tier: Tier) -> Budget {
        match tier {
            Tier::Quick => Budget { cases: 18_000, shards: 16, min_len: 24, max_len: 200 },
            Tier::Thorough => Budget { cases: 150_000, shards: 16, min_len: 24, max_len: 200 },
        }
    }
    fn fuzz_targets(&self) -> Vec<(&'static str, u64, usize)> {
        vec![("prop", 400_000, 200)]
    }
    fn rule(&self) -> String {
        "bytes -> 1-2 breaker rules (strategy in SlowRequestRatio/ErrorRatio/ErrorCount, min_request_amount 0..4, thresholds on the decision boundary, window 200/1000 ms x 1/2/4 buckets, retry 50/300/1500 ms, max_allowed_rt 0/10 ms), optional isolation rule (threshold 1-2) so that a probe can be rejected by another rule, 4-40 events enter / complete(any in-flight entry, ok|error; slow = exit later than max_rt after entry) / advance(menu: 1, bucket-1, bucket, window/2, window, window+1, retry-1, retry, retry+1, max_rt, max_rt+1); after every event the build() result, every breaker's current_state() and the whole listener log are compared with the BreakerModel; non-trivial = trace visits Open and Half-Open and contains a completion arriving in a state different from the one its entry was admitted in; distinct = distinct decoded cases".into()
    }
    fn assumptions(&self) -> Vec<String> {
        vec![
            "virtual clock hook; sequential requests".into(),
            "the order of breakers on one resource is taken as observed (get_breakers_of_resource), since it decides which breaker sees a request first".into(),
            "a probe whose entry is blocked returns the breaker to Open without moving its retry time (the statement does not fix the retry time; the model follows the observable behaviour: the next request probes again)".into(),
            "ErrorCount compares the error count with the integer part of the threshold".into(),
        ]
    }
    fn run(&self, bytes: &[u8], cfg: &RunCfg) -> Verdict {
        let mut u = Bytes::new(bytes);
        let case = decode(&mut u);
        run_case(&case, cfg)
    }
}

struct OpenRec {
    idx: usize,
    t_build: u64,
    admitted_states: Vec<St>,
}

pub fn run_case(case: &Case, cfg: &RunCfg) -> Verdict {
    const ID: &str = "C03";
    util::reset_all();
    let t0 = clock::new_case_epoch() + case.phase_ms;
    clock::set_ms(t0);
    let res = util::fresh_name("c03");
    let listener = Arc::new(RecListener(Mutex::new(Vec::new())));
    cb::register_state_change_listeners(vec![listener.clone()]);
    cb::load_rules(case.rules.iter().map(|s| Arc::new(to_rule(&res, s))).collect());
    if let Some(t) = case.isolation {
        isolation::load_rules(vec![Arc::new(isolation::Rule { resource: res.clone(), threshold: t, ..Default::default() })]);
    }
    let real = cb::get_breakers_of_resource(&res);
    // rules that are equal under rule equality (the id is ignored) are one rule
    let built: Vec<cb::Rule> = case.rules.iter().map(|s| to_rule(&res, s)).collect();
    let mut distinct = 0usize;
    for (i, r) in built.iter().enumerate() {
        if !built[..i].iter().any(|q| q == r) {
            distinct += 1;
        }
    }
    if real.len() != distinct {
        fail!(ID, "breakers-not-built", "breakers-not-built", case, "{} breakers for {} distinct rules", real.len(), distinct);
    }
    // model breakers in the observed order
    let mut model: Vec<Breaker> = Vec::new();
    for b in &real {
        let id = b.bound_rule().id.clone();
        match case.rules.iter().find(|s| s.id == id) {
            Some(s) => model.push(Breaker::new(s.clone())),
            None => fail!(ID, "unknown-breaker", "unknown-breaker", case, "breaker bound to unknown rule id {}", id),
        }
    }
    let mut log: Vec<Transition> = Vec::new();
    let mut open = OpenEntries::new();
    let mut recs: Vec<OpenRec> = Vec::new();
    let (mut seen_open, mut seen_half, mut cross_state, mut blocked_probe, mut expiry_between) = (false, false, false, false, false);
    let mut last_err_t: Option<u64> = None;

    for (ei, ev) in case.events.iter().enumerate() {
        match ev {
            Ev::Advance { dt } => clock::advance_ms(*dt),
            Ev::Enter => {
                let now = clock::now_ms();
                let iso_ok = case.isolation.map(|t| recs.len() as u32 + 1 <= t).unwrap_or(true);
                let mut probes: Vec<usize> = Vec::new();
                let mut brk_ok = true;
                for (i, b) in model.iter_mut().enumerate() {
                    let (ok, probe) = b.try_pass(now, &mut log);
                    if probe {
                        probes.push(i);
                    }
                    if !ok {
                        brk_ok = false;
                        break;
                    }
                }
                let expect_pass = iso_ok && brk_ok;
                if !expect_pass {
                    for i in &probes {
                        model[*i].probe_blocked(&mut log);
                        blocked_probe = true;
                    }
                }
                let got = build(Req::new(&res, 1));
                match got {
                    Ok(e) => {
                        if !expect_pass {
                            open.push(e);
                            fail!(ID, "admitted-while-not-allowed", "admitted-while-not-allowed", case,
                                "event {} t=+{}: request admitted but the machine rejects it (model states {:?}, isolation ok {})", ei, now - t0, model.iter().map(|b| b.state).collect::<Vec<_>>(), iso_ok);
                        }
                        let idx = open.push(e);
                        recs.push(OpenRec { idx, t_build: now, admitted_states: model.iter().map(|b| b.state).collect() });
                    }
                    Err(msg) => {
                        if expect_pass {
                            fail!(ID, "rejected-while-allowed", "rejected-while-allowed", case,
                                "event {} t=+{}: request rejected but the machine admits it (model states {:?}); {}", ei, now - t0, model.iter().map(|b| b.state).collect::<Vec<_>>(), msg.chars().take(160).collect::<String>());
                        }
                        let want = if !brk_ok { "CircuitBreaking" } else { "Isolation" };
                        let bt = block_type_of(&msg);
                        if bt != want {
                            fail!(ID, "wrong-block-type", format!("wrong-block-type|{}|{}", want, bt), case, "event {}: blocked as {} expected {}", ei, bt, want);
                        }
                    }
                }
            }
            Ev::Complete { k, error } => {
                if recs.is_empty() {
                    continue;
                }
                let now = clock::now_ms();
                let r = recs.remove(*k % recs.len());
                let rt = now - r.t_build;
                if *error {
                    if let Some(Some(e)) = open.0.get(r.idx) {
                        e.set_err(sentinel_core::Error::msg("biz"));
                    }
                    if let Some(l) = last_err_t {
                        if model.iter().any(|b| now - l > b.spec.stat_interval_ms) {
                            expiry_between = true;
                        }
                    }
                    last_err_t = Some(now);
                }
                for (i, b) in model.iter_mut().enumerate() {
                    if b.state != r.admitted_states[i] {
                        cross_state = true;
                    }
                    b.on_complete(now, rt, *error, &mut log);
                }
                open.exit(r.idx);
            }
        }
        // compare after every event
        for (i, b) in real.iter().enumerate() {
            let s = st(b.current_state());
            if s != model[i].state {
                fail!(ID, "state-mismatch", format!("state-mismatch|{:?}|{:?}", model[i].state, s), case,
                    "after event {} ({:?}) t=+{}: breaker {} is {:?}, the state machine prescribes {:?}", ei, ev, clock::now_ms() - t0, model[i].spec.id, s, model[i].state);
            }
            match s {
                St::Open => seen_open = true,
                St::HalfOpen => seen_half = true,
                _ => {}
            }
        }
        let got_log = listener.0.lock().unwrap().clone();
        if got_log != log {
            fail!(ID, "listener-log-mismatch", "listener-log-mismatch", case,
                "after event {} ({:?}): listeners saw {:?}, expected {:?}", ei, ev, got_log, log);
        }
    }
    drop(open);
    let mut classes = Vec::new();
    if seen_open { classes.push("visits-open"); }
    if seen_half { classes.push("visits-half-open"); }
    if blocked_probe { classes.push("blocked-probe"); }
    if real.len() == 2 { classes.push("two-breakers"); }
    if expiry_between { classes.push("window-expiry-between-errors"); }
    if case.rules.iter().any(|r| r.min_request_amount == 0) { classes.push("min-request-amount-0"); }
    if cross_state { classes.push("completion-in-other-state"); }
    Verdict::Pass(CaseReport {
        nontrivial: seen_open && seen_half && cross_state,
        classes,
        digest: digest_of(case),
        decoded: if cfg.want_decoded { serde_json::to_value(case).ok() } else { None },
        known_hits: vec![],
        counters: vec![("transitions", log.len() as u64)],
    })
}
