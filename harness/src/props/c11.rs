//! C11 — hot reload keeps the state of unchanged rules and applies changed ones at once.
use super::common::*;
use crate::engine::*;
use crate::util::{self, clock};
use sentinel_core::{circuitbreaker as cb, flow, hotspot};
use serde::Serialize;
use std::sync::Arc;

pub struct C11;

#[derive(Debug, Clone, Serialize)]
pub struct Step {
    pub dt: u64,
    /// 0..=5 request (batch / value derived), 6 exit oldest ok, 7 exit oldest with error
    pub op: u8,
    pub batch: u32,
    pub value: usize,
}

#[derive(Debug, Clone, Serialize)]
pub struct Case {
    /// 0 flow reject global window, 1 flow reject private window, 2 flow throttling, 3 flow warm-up,
    /// 4 hotspot QPS reject, 5 hotspot QPS throttling, 6 hotspot concurrency, 7 circuit breaker
    pub kind: u8,
    pub two_rules: bool,
    pub steps: Vec<Step>,
    pub reload_at: usize,
    /// reload through load_rules_of_resource instead of load_rules
    pub via_resource_api: bool,
    /// what happens to the unrelated resource in the same load_rules call: 0 kept, 1 removed, 2 changed, 3 another added
    pub others: u8,
    pub shuffle: bool,
    /// 0 none, 1 threshold -> 0, 2 threshold -> 1e9 (only where the assertion is state independent)
    pub change: u8,
    /// parameter choices of the rules under test (menus per scenario kind)
    pub params: [u8; 6],
    /// 0 none; otherwise the first rule is REPLACED by a different one at the reload and a probe burst judges it:
    /// flow 1 -> Reject(k), 2 -> Throttling(1/s, no queue), 3 -> WarmUp(30); hotspot 1 -> QPS Reject(k), 2 -> Concurrency(k),
    /// 3 -> override 0 for value "p"; breaker 1 -> ErrorCount(k); every kind 4 -> "there and back": the threshold is
    /// raised out of reach by one reload and the ORIGINAL rules are loaded again by the next, then the original rule is probed
    pub probe: u8,
    pub probe_k: u8,
}

pub fn decode(u: &mut Bytes) -> Case {
    let kind = u.choice(8) as u8;
    // a second rule only where the evaluation order of a resource's rules (a HashSet order that may
    // differ between any two loads) cannot influence the outcome: Reject checks have no side effects
    let two_rules = u.bool() && kind <= 1;
    let n = 4 + u.choice(30);
    let steps: Vec<Step> = (0..n)
        .map(|_| Step {
            dt: [0u64, 0, 1, 50, 100, 200, 250, 300, 499, 500, 700, 1000, 1001, 2000][u.choice(14)],
            op: u.choice(8) as u8,
            batch: 1 + u.choice(2) as u32,
            value: u.choice(2),
        })
        .collect();
    let reload_at = 1 + u.choice(n - 1);
    Case {
        kind,
        two_rules,
        steps,
        reload_at,
        via_resource_api: u.bool(),
        others: u.choice(4) as u8,
        shuffle: u.bool(),
        change: [0u8, 0, 0, 1, 2][u.choice(5)],
        // later additions come from the tail (committed replays keep their meaning; all-zero = the original fixed rules)
        params: [u.tail_u8(), u.tail_u8(), u.tail_u8(), u.tail_u8(), u.tail_u8(), u.tail_u8()],
        probe: [0u8, 0, 1, 2, 3, 4, 4, 5, 5][u.tail_choice(9)],
        probe_k: 1 + u.tail_choice(3) as u8,
    }
}

fn pm<T: Copy>(case: &Case, i: usize, menu: &[T]) -> T {
    menu[(case.params[i] as usize * menu.len()) >> 8]
}

const VALUES: [&str; 2] = ["p", "q"];

/// what the reload does to the first rule of the resource under test
#[derive(Clone, Copy, PartialEq)]
enum Change {
    None,
    ThresholdZero,
    ThresholdHuge,
    Probe(u8, u8),
    /// exactly one parameter of the first rule gets another (valid) value; which one is chosen by the byte
    OneField(u8),
}

/// the rules of the resource under test: fresh objects (fresh ids) on every call
fn flow_rules(case: &Case, res: &str, change: Change) -> Vec<Arc<flow::Rule>> {
    let (kind, two) = (case.kind, case.two_rules);
    let base = flow::Rule { resource: res.into(), ..Default::default() };
    let mut v = match kind {
        0 => vec![flow::Rule { threshold: pm(case, 0, &[3.0, 1.0, 2.0, 5.0, 2.5]), stat_interval_ms: pm(case, 1, &[1000, 0, 2000, 500, 5000]), ..base.clone() }],
        1 => vec![flow::Rule { threshold: pm(case, 0, &[3.0, 1.0, 2.0, 5.0]), stat_interval_ms: pm(case, 1, &[700, 250, 300, 1500, 3000]), ..base.clone() }],
        2 => vec![flow::Rule {
            threshold: pm(case, 0, &[5.0, 1.0, 2.0, 10.0]),
            control_strategy: flow::ControlStrategy::Throttling,
            max_queueing_time_ms: pm(case, 1, &[500, 0, 100, 2000]),
            stat_interval_ms: pm(case, 2, &[1000, 100, 10000]),
            ..base.clone()
        }],
        _ => vec![flow::Rule {
            threshold: pm(case, 0, &[30.0, 60.0]),
            calculate_strategy: flow::CalculateStrategy::WarmUp,
            warm_up_period_sec: pm(case, 1, &[2, 1, 3]),
            warm_up_cold_factor: pm(case, 2, &[3, 0, 5]),
            ..base.clone()
        }],
    };
    if two {
        v.push(flow::Rule { threshold: 8.0, stat_interval_ms: 2000, ..base.clone() });
    }
    match change {
        Change::None => {}
        Change::ThresholdZero => v[0].threshold = 0.0,
        Change::ThresholdHuge => v[0].threshold = 1e9,
        Change::Probe(1, k) => v[0] = flow::Rule { threshold: k as f64, stat_interval_ms: if kind == 1 { v[0].stat_interval_ms } else { 1000 }, ..base },
        Change::Probe(2, _) => v[0] = flow::Rule { threshold: 1.0, control_strategy: flow::ControlStrategy::Throttling, max_queueing_time_ms: 0, stat_interval_ms: 1000, ..base },
        Change::Probe(_, _) => v[0] = flow::Rule { threshold: 30.0, calculate_strategy: flow::CalculateStrategy::WarmUp, warm_up_period_sec: 10, warm_up_cold_factor: 3, ..base },
        Change::OneField(b) => {
            let r = &mut v[0];
            match kind {
                0 => match b % 2 {
                    0 => r.threshold += 1.0,
                    _ => r.stat_interval_ms = if r.stat_interval_ms == 2000 { 5000 } else { 2000 },
                },
                1 => match b % 2 {
                    0 => r.threshold += 1.0,
                    _ => r.stat_interval_ms = if r.stat_interval_ms == 700 { 300 } else { 700 },
                },
                2 => match b % 3 {
                    0 => r.threshold *= 2.0,
                    1 => r.stat_interval_ms = match r.stat_interval_ms { 1000 => 100, 100 => 1000, _ => 1000 },
                    _ => r.max_queueing_time_ms = if r.max_queueing_time_ms == 0 { 500 } else { 0 },
                },
                _ => match b % 3 {
                    0 => r.threshold = if r.threshold == 30.0 { 60.0 } else { 30.0 },
                    1 => r.warm_up_period_sec += 2,
                    _ => r.warm_up_cold_factor = if r.warm_up_cold_factor == 5 { 3 } else { 5 },
                },
            }
        }
    }
    v.into_iter().map(Arc::new).collect()
}

fn hot_rules(case: &Case, res: &str, change: Change) -> Vec<Arc<hotspot::Rule>> {
    let kind = case.kind;
    let base = hotspot::Rule { resource: res.into(), param_index: 0, duration_in_sec: 1, ..Default::default() };
    let mut items = std::collections::HashMap::new();
    match pm(case, 3, &[0u8, 1, 2]) {
        1 => {
            items.insert("q".to_string(), 1u64);
        }
        2 => {
            items.insert("q".to_string(), 4u64);
            items.insert("other".to_string(), 7u64);
        }
        _ => {}
    }
    let mut v = match kind {
        4 => vec![hotspot::Rule {
            metric_type: hotspot::MetricType::QPS,
            control_strategy: hotspot::ControlStrategy::Reject,
            threshold: pm(case, 0, &[2, 1, 3]),
            burst_count: pm(case, 1, &[1, 0, 2]),
            duration_in_sec: pm(case, 2, &[1, 2]),
            specific_items: items,
            ..base.clone()
        }],
        5 => vec![hotspot::Rule {
            metric_type: hotspot::MetricType::QPS,
            control_strategy: hotspot::ControlStrategy::Throttling,
            threshold: pm(case, 0, &[5, 2, 10]),
            max_queueing_time_ms: pm(case, 1, &[300, 0, 100, 1000]),
            duration_in_sec: pm(case, 2, &[1, 2]),
            specific_items: items,
            ..base.clone()
        }],
        _ => vec![hotspot::Rule { metric_type: hotspot::MetricType::Concurrency, threshold: pm(case, 0, &[2, 1, 3]), specific_items: items, ..base.clone() }],
    };
    match change {
        Change::None => {}
        Change::ThresholdHuge => {
            v[0].threshold = 1_000_000;
            v[0].specific_items.clear();
        }
        Change::ThresholdZero => v[0].threshold = 0,
        Change::Probe(1, k) => v[0] = hotspot::Rule { metric_type: hotspot::MetricType::QPS, control_strategy: hotspot::ControlStrategy::Reject, threshold: k as u64, burst_count: 0, ..base },
        Change::Probe(2, k) => v[0] = hotspot::Rule { metric_type: hotspot::MetricType::Concurrency, threshold: k as u64, ..base },
        Change::Probe(_, _) => {
            let mut r = v[0].clone();
            r.specific_items.insert("p".to_string(), 0);
            v[0] = r;
        }
        Change::OneField(b) => {
            let r = &mut v[0];
            match kind {
                4 => match b % 4 {
                    0 => r.threshold += 1,
                    1 => r.burst_count += 1,
                    2 => r.duration_in_sec = if r.duration_in_sec == 1 { 2 } else { 1 },
                    _ => {
                        let t = r.threshold + 2;
                        r.specific_items.insert("p".to_string(), t);
                    }
                },
                5 => match b % 3 {
                    0 => r.threshold *= 2,
                    1 => r.max_queueing_time_ms = if r.max_queueing_time_ms == 0 { 300 } else { 0 },
                    _ => r.duration_in_sec = if r.duration_in_sec == 1 { 2 } else { 1 },
                },
                _ => match b % 2 {
                    0 => r.threshold += 1,
                    _ => {
                        let t = r.threshold + 2;
                        r.specific_items.insert("p".to_string(), t);
                    }
                },
            }
        }
    }
    v.into_iter().map(Arc::new).collect()
}

fn cb_rules(case: &Case, res: &str, change: Change) -> Vec<Arc<cb::Rule>> {
    let base = cb::Rule {
        resource: res.into(),
        retry_timeout_ms: pm(case, 1, &[300, 100, 1500]),
        stat_interval_ms: 1000,
        min_request_amount: pm(case, 2, &[1, 0, 2]),
        stat_sliding_window_bucket_count: pm(case, 3, &[0, 2]),
        ..Default::default()
    };
    let mut v = vec![match pm(case, 0, &[0u8, 1, 2, 3, 4]) {
        0 => cb::Rule { strategy: cb::BreakerStrategy::ErrorCount, threshold: 2.0, ..base.clone() },
        1 => cb::Rule { strategy: cb::BreakerStrategy::ErrorCount, threshold: 1.0, ..base.clone() },
        2 => cb::Rule { strategy: cb::BreakerStrategy::ErrorRatio, threshold: 0.5, ..base.clone() },
        3 => cb::Rule { strategy: cb::BreakerStrategy::SlowRequestRatio, threshold: 0.5, max_allowed_rt_ms: 100, ..base.clone() },
        _ => cb::Rule { strategy: cb::BreakerStrategy::ErrorCount, threshold: 3.0, ..base.clone() },
    }];
    if case.two_rules {
        v.push(cb::Rule { strategy: cb::BreakerStrategy::ErrorRatio, threshold: 0.75, stat_sliding_window_bucket_count: 2, ..base.clone() });
    }
    match change {
        Change::None | Change::ThresholdZero | Change::OneField(_) => {}
        Change::ThresholdHuge => v[0].threshold = 1e9,
        Change::Probe(_, k) => v[0] = cb::Rule { strategy: cb::BreakerStrategy::ErrorCount, threshold: k as f64, min_request_amount: 1, retry_timeout_ms: 5000, stat_interval_ms: 1000, resource: res.into(), ..Default::default() },
    }
    v.into_iter().map(Arc::new).collect()
}

struct Run {
    obs: Vec<String>,
    ptr_kept: Option<bool>,
    next_after_change: Option<bool>,
    live_at_reload: bool,
}

fn ptrs(kind: u8, res: &String) -> Vec<usize> {
    let mut v: Vec<usize> = match kind {
        0..=3 => flow::get_traffic_controller_list_for(res).iter().map(|c| Arc::as_ptr(c) as *const () as usize).collect(),
        4..=6 => hotspot::get_traffic_controller_list_for(res).iter().map(|c| Arc::as_ptr(c) as *const () as usize).collect(),
        _ => cb::get_breakers_of_resource(res).iter().map(|c| Arc::as_ptr(c) as *const () as usize).collect(),
    };
    v.sort();
    v
}

fn load(case: &Case, res: &String, other: &String, third: &String, reload: bool, change: Change) {
    load_via(case, res, other, third, reload, change, case.via_resource_api)
}

fn load_via(case: &Case, res: &String, other: &String, third: &String, reload: bool, change: Change, via_resource_api: bool) {
    let kind = case.kind;
    // what the unrelated resource looks like in this call
    let others = if reload { case.others } else { 0 };
    match kind {
        0..=3 => {
            let mut mine = flow_rules(case, res, change);
            if reload && case.shuffle {
                mine.reverse();
            }
            if reload && via_resource_api {
                let _ = flow::load_rules_of_resource(res, mine);
                return;
            }
            let mut all = mine;
            match others {
                0 => all.insert(0, Arc::new(flow::Rule { resource: other.clone(), threshold: 5.0, ..Default::default() })),
                2 => all.push(Arc::new(flow::Rule { resource: other.clone(), threshold: 6.0, ..Default::default() })),
                3 => {
                    all.push(Arc::new(flow::Rule { resource: other.clone(), threshold: 5.0, ..Default::default() }));
                    all.insert(0, Arc::new(flow::Rule { resource: third.clone(), threshold: 1.0, ..Default::default() }));
                }
                _ => {}
            }
            flow::load_rules(all);
        }
        4..=6 => {
            let mut mine = hot_rules(case, res, change);
            if reload && case.shuffle {
                mine.reverse();
            }
            if reload && via_resource_api {
                let _ = hotspot::load_rules_of_resource(res, mine);
                return;
            }
            let mut all = mine;
            let o = |t: u64, r: &String| Arc::new(hotspot::Rule { resource: r.clone(), metric_type: hotspot::MetricType::Concurrency, threshold: t, ..Default::default() });
            match others {
                0 => all.insert(0, o(5, other)),
                2 => all.push(o(6, other)),
                3 => {
                    all.push(o(5, other));
                    all.insert(0, o(1, third));
                }
                _ => {}
            }
            hotspot::load_rules(all);
        }
        _ => {
            let mut mine = cb_rules(case, res, change);
            if reload && case.shuffle {
                mine.reverse();
            }
            if reload && via_resource_api {
                let _ = cb::load_rules_of_resource(res, mine);
                return;
            }
            let mut all = mine;
            let o = |t: f64, r: &String| Arc::new(cb::Rule { resource: r.clone(), strategy: cb::BreakerStrategy::ErrorCount, threshold: t, retry_timeout_ms: 100, stat_interval_ms: 1000, ..Default::default() });
            match others {
                0 => all.insert(0, o(5.0, other)),
                2 => all.push(o(6.0, other)),
                3 => {
                    all.push(o(5.0, other));
                    all.insert(0, o(1.0, third));
                }
                _ => {}
            }
            cb::load_rules(all);
        }
    }
}

/// run the script; `reload` = perform the reload at `case.reload_at`; `change` as in Case
fn run(case: &Case, reload: bool, change: Change) -> Run {
    util::reset_all();
    let t0 = (clock::new_case_epoch() / 210_000 + 1) * 210_000;
    clock::set_ms(t0);
    let res = util::fresh_name("c11");
    let other = util::fresh_name("c11o");
    let third = util::fresh_name("c11t");
    load(case, &res, &other, &third, false, Change::None);
    let mut open = OpenEntries::new();
    let mut order: Vec<usize> = Vec::new();
    let mut obs = Vec::new();
    let mut ptr_kept = None;
    let mut next_after_change = None;
    let mut live_at_reload = false;
    let mut admitted_before = 0u32;
    for (i, s) in case.steps.iter().enumerate() {
        if reload && i == case.reload_at {
            let before = ptrs(case.kind, &res);
            live_at_reload = admitted_before > 0;
            load(case, &res, &other, &third, true, change);
            let after = ptrs(case.kind, &res);
            ptr_kept = Some(before == after);
        }
        clock::advance_ms(s.dt);
        let before_ns = clock::now_ns();
        match s.op {
            6 | 7 => {
                if !order.is_empty() {
                    let idx = order.remove(0);
                    if s.op == 7 {
                        if let Some(Some(e)) = open.0.get(idx) {
                            e.set_err(sentinel_core::Error::msg("biz"));
                        }
                    }
                    open.exit(idx);
                    obs.push("exit".into());
                } else {
                    obs.push("noop".into());
                }
            }
            _ => {
                let n_req = if case.kind == 3 { 12 } else { 1 }; // warm-up: a burst per step
                let mut adm = 0;
                let mut last_bt = String::new();
                for _ in 0..n_req {
                    let mut req = Req::new(&res, if case.kind == 3 { 1 } else { s.batch });
                    req.args = Some(vec![VALUES[s.value].to_string()]);
                    match build(req) {
                        Ok(e) => {
                            adm += 1;
                            let idx = open.push(e);
                            if case.kind == 6 || case.kind == 7 {
                                order.push(idx); // stays open until an exit step
                            } else {
                                open.exit(idx);
                            }
                        }
                        Err(m) => last_bt = block_type_of(&m),
                    }
                }
                if reload && change != Change::None && i >= case.reload_at && next_after_change.is_none() {
                    next_after_change = Some(adm > 0);
                }
                if i < case.reload_at {
                    admitted_before += adm;
                }
                let waited = clock::now_ns() - before_ns;
                let states: Vec<String> = if case.kind == 7 {
                    cb::get_breakers_of_resource(&res).iter().map(|b| format!("{:?}:{:?}", b.bound_rule().strategy, b.current_state())).collect::<std::collections::BTreeSet<_>>().into_iter().collect()
                } else {
                    vec![]
                };
                obs.push(format!("adm={} blk={} waited={} {:?}", adm, last_bt, waited, states));
            }
        }
    }
    drop(open);
    Run { obs, ptr_kept, next_after_change, live_at_reload }
}

/// Do two rules differ in any parameter (the id apart)? Judged on the serialised fields, NOT with the library's own rule
/// equality - a reload that the library wrongly takes for "equal" is exactly what the probes are after.
fn params_differ<T: serde::Serialize>(a: &T, b: &T) -> bool {
    let strip = |x: &T| {
        let mut v = serde_json::to_value(x).unwrap_or(serde_json::Value::Null);
        if let Some(o) = v.as_object_mut() {
            o.remove("id");
        }
        v
    };
    strip(a) != strip(b)
}

/// The first rule is replaced by a DIFFERENT rule at the reload; a probe burst right after it judges whether the new
/// rule is the one in force ("takes effect on the very next entry"), with bounds that hold whether or not the
/// implementation carries statistics over to the new rule.
fn run_probe(case: &Case) -> Result<&'static str, (String, String)> {
    util::reset_all();
    let t0 = (clock::new_case_epoch() / 210_000 + 1) * 210_000;
    clock::set_ms(t0);
    let res = util::fresh_name("c11p");
    let other = util::fresh_name("c11po");
    let third = util::fresh_name("c11pt");
    load(case, &res, &other, &third, false, Change::None);
    let mut open = OpenEntries::new();
    let mut order: Vec<usize> = Vec::new();
    let mut admitted_log: Vec<(u64, u32)> = Vec::new(); // (ms, tokens)
    for s in case.steps.iter().take(case.reload_at) {
        clock::advance_ms(s.dt);
        match s.op {
            6 | 7 => {
                if !order.is_empty() {
                    let idx = order.remove(0);
                    if s.op == 7 {
                        if let Some(Some(e)) = open.0.get(idx) {
                            e.set_err(sentinel_core::Error::msg("biz"));
                        }
                    }
                    open.exit(idx);
                }
            }
            _ => {
                let n_req = if case.kind == 3 { 12 } else { 1 };
                for _ in 0..n_req {
                    let batch = if case.kind == 3 { 1 } else { s.batch };
                    let mut req = Req::new(&res, batch);
                    req.args = Some(vec![VALUES[s.value].to_string()]);
                    if let Ok(e) = build(req) {
                        admitted_log.push((clock::now_ms(), batch));
                        let idx = open.push(e);
                        if case.kind == 6 || case.kind == 7 {
                            order.push(idx);
                        } else {
                            open.exit(idx);
                        }
                    }
                }
            }
        }
    }
    // entries still open finish normally before the rules change (their completions belong to the old rules)
    for idx in order.drain(..) {
        open.exit(idx);
    }
    if case.probe == 4 {
        return there_and_back(case, &res, &other, &third);
    }
    if case.probe == 5 {
        let elapsed: u64 = case.steps.iter().take(case.reload_at).map(|s| s.dt).sum();
        return one_field(case, &res, &other, &third, elapsed);
    }
    let k = case.probe_k as u32;
    let change = Change::Probe(case.probe, case.probe_k);
    // is the replacement really a different rule?
    let differs = match case.kind {
        0..=3 => params_differ(&*flow_rules(case, &res, Change::None)[0], &*flow_rules(case, &res, change)[0]),
        4..=6 => params_differ(&*hot_rules(case, &res, Change::None)[0], &*hot_rules(case, &res, change)[0]),
        _ => params_differ(&*cb_rules(case, &res, Change::None)[0], &*cb_rules(case, &res, change)[0]),
    };
    if !differs {
        return Ok("probe-rule-equal-to-old");
    }
    load(case, &res, &other, &third, true, change);
    clock::advance_ms(case.steps.get(case.reload_at).map(|s| s.dt).unwrap_or(0));
    let now = clock::now_ms();
    let err = |what: String| Err(("changed-rule-not-applied".to_string(), what));
    match (case.kind, case.probe) {
        (0..=3, 1) => {
            // -> Reject(k) on a 1 s (kind 1: the same private) window: of k + 2 single-token requests at one instant at
            // most k pass, and at least k minus whatever the window may already hold
            let interval = if case.kind == 1 { flow_rules(case, &res, Change::None)[0].stat_interval_ms as u64 } else { 1000 };
            let carried: u32 = admitted_log.iter().filter(|(t, _)| *t + interval + 500 > now).map(|(_, n)| *n).sum();
            let mut adm = 0u32;
            for _ in 0..k + 2 {
                if let Ok(e) = build(Req::new(&res, 1)) {
                    adm += 1;
                    e.exit();
                }
            }
            if adm > k {
                return err(format!("the reload replaced the first rule by Reject with threshold {}, yet {} of {} single-token requests at one instant right after it were admitted", k, adm, k + 2));
            }
            if !case.two_rules && adm + carried.min(k) < k {
                return err(format!("the reload replaced the first rule by Reject with threshold {}; only {} requests were admitted although at most {} tokens can already be in its window", k, adm, carried));
            }
            Ok("probe-flow-to-reject")
        }
        (0..=3, 2) => {
            // -> Throttling 1 per second without queueing: at most one of three requests at one instant
            let recent = admitted_log.iter().any(|(t, _)| *t + 1000 >= now);
            let mut adm = 0u32;
            for _ in 0..3 {
                if let Ok(e) = build(Req::new(&res, 1)) {
                    adm += 1;
                    e.exit();
                }
            }
            if adm > 1 {
                return err(format!("the reload replaced the first rule by Throttling (1 per second, no queueing), yet {} of 3 requests at one instant were admitted", adm));
            }
            if !case.two_rules && !recent && adm == 0 {
                return err("the reload replaced the first rule by Throttling (1 per second, no queueing) and nothing was admitted for a second, yet the next request was rejected".into());
            }
            Ok("probe-flow-to-throttling")
        }
        (0..=3, _) => {
            // -> WarmUp with threshold 30: never more than 30 per second
            let mut adm = 0u32;
            for _ in 0..40 {
                if let Ok(e) = build(Req::new(&res, 1)) {
                    adm += 1;
                    e.exit();
                }
            }
            if adm > 30 {
                return err(format!("the reload replaced the first rule by WarmUp with threshold 30, yet {} of 40 requests at one instant were admitted", adm));
            }
            Ok("probe-flow-to-warmup")
        }
        (4..=6, 1) => {
            let mut adm = 0u32;
            for _ in 0..k + 2 {
                let mut req = Req::new(&res, 1);
                req.args = Some(vec!["z-fresh".to_string()]);
                if let Ok(e) = build(req) {
                    adm += 1;
                    e.exit();
                }
            }
            if adm != k {
                return err(format!("the reload replaced the first rule by hotspot QPS Reject with threshold {} (no burst), yet {} of {} requests of a never-seen value at one instant were admitted", k, adm, k + 2));
            }
            Ok("probe-hotspot-to-qps-reject")
        }
        (4..=6, 2) => {
            let mut adm = 0u32;
            let mut held = OpenEntries::new();
            for _ in 0..k + 2 {
                let mut req = Req::new(&res, 1);
                req.args = Some(vec!["z-fresh".to_string()]);
                if let Ok(e) = build(req) {
                    adm += 1;
                    held.push(e);
                }
            }
            drop(held);
            if adm != k {
                return err(format!("the reload replaced the first rule by hotspot Concurrency with threshold {}, yet {} of {} simultaneously open requests of a never-seen value were admitted", k, adm, k + 2));
            }
            Ok("probe-hotspot-to-concurrency")
        }
        (4..=5, _) => {
            let mut req = Req::new(&res, 1);
            req.args = Some(vec!["p".to_string()]);
            if let Ok(e) = build(req) {
                e.exit();
                return err("the reload added the override 0 for value \"p\" to the hotspot QPS rule, yet the next request of that value was admitted".into());
            }
            Ok("probe-hotspot-override-zero")
        }
        (7, _) => {
            // -> ErrorCount(k), min_request_amount 1, retry 5 s: after at most k failed requests the next one is rejected
            let mut failed = 0u32;
            let mut rejected = false;
            for _ in 0..k + 1 {
                match build(Req::new(&res, 1)) {
                    Ok(e) => {
                        e.set_err(sentinel_core::Error::msg("biz"));
                        e.exit();
                        failed += 1;
                    }
                    Err(_) => {
                        rejected = true;
                        break;
                    }
                }
            }
            if !rejected {
                return err(format!("the reload replaced the breaker rule by ErrorCount with threshold {}, yet after {} failed requests the next one was still admitted", k, failed));
            }
            Ok("probe-breaker-to-error-count")
        }
        _ => Ok("probe-not-applicable"),
    }
}

/// "There and back": one reload raises the first rule's threshold out of reach (a changed rule), the next one loads the
/// ORIGINAL rules again (fresh ids). Both are changes and both must take effect; afterwards the original rule is probed
/// with bounds that hold whatever state was carried over. The two reloads go through independently chosen entry points.
fn there_and_back(case: &Case, res: &String, other: &String, third: &String) -> Result<&'static str, (String, String)> {
    let api1 = case.params[4] >= 128;
    let api2 = case.params[5] >= 128;
    load_via(case, res, other, third, true, Change::ThresholdHuge, api1);
    load_via(case, res, other, third, true, Change::None, api2);
    clock::advance_ms(case.steps.get(case.reload_at).map(|s| s.dt).unwrap_or(0));
    let apis = format!("first reload via {}, second via {}", if api1 { "load_rules_of_resource" } else { "load_rules" }, if api2 { "load_rules_of_resource" } else { "load_rules" });
    let err = |what: String| Err(("changed-back-rule-not-applied".to_string(), format!("{} ({})", what, apis)));
    match case.kind {
        0 | 1 | 3 => {
            let t = flow_rules(case, res, Change::None)[0].threshold;
            let n = t.ceil() as u32 + 2;
            let mut adm = 0u32;
            for _ in 0..n {
                if let Ok(e) = build(Req::new(res, 1)) {
                    adm += 1;
                    e.exit();
                }
            }
            if adm as f64 > t {
                return err(format!("threshold raised to 1e9 and then the original rule (threshold {}) loaded again, yet {} of {} single-token requests at one instant were admitted", t, adm, n));
            }
            Ok("there-and-back-flow")
        }
        2 => {
            let r = flow_rules(case, res, Change::None)[0].clone();
            let interval = if r.stat_interval_ms == 0 { 1000 } else { r.stat_interval_ms as u64 };
            let gap_ns = (interval * 1_000_000) as f64 / r.threshold;
            let t_before = clock::now_ns();
            let mut adm = 0u64;
            for _ in 0..3 {
                if let Ok(e) = build(Req::new(res, 1)) {
                    adm += 1;
                    e.exit();
                }
            }
            let elapsed = (clock::now_ns() - t_before) as f64;
            if adm >= 2 && elapsed + 1_000_000.0 < (adm - 1) as f64 * gap_ns {
                return err(format!("threshold raised to 1e9 and then the original throttling rule ({} per {} ms) loaded again, yet {} requests issued at one instant were admitted within {} ns", r.threshold, interval, adm, elapsed));
            }
            Ok("there-and-back-flow-throttling")
        }
        4 => {
            let r = hot_rules(case, res, Change::None)[0].clone();
            let cap = r.threshold + r.burst_count;
            let mut adm = 0u64;
            for _ in 0..cap + 2 {
                let mut req = Req::new(res, 1);
                req.args = Some(vec!["z-fresh".to_string()]);
                if let Ok(e) = build(req) {
                    adm += 1;
                    e.exit();
                }
            }
            if adm != cap {
                return err(format!("threshold raised and then the original hotspot QPS rule (threshold {} + burst {}) loaded again, yet {} of {} requests of a never-seen value at one instant were admitted", r.threshold, r.burst_count, adm, cap + 2));
            }
            Ok("there-and-back-hotspot-reject")
        }
        5 => {
            let r = hot_rules(case, res, Change::None)[0].clone();
            let gap_ms = (r.duration_in_sec * 1000) as f64 / r.threshold as f64;
            let t_before = clock::now_ms();
            let mut adm = 0u64;
            for _ in 0..3 {
                let mut req = Req::new(res, 1);
                req.args = Some(vec!["z-fresh".to_string()]);
                if let Ok(e) = build(req) {
                    adm += 1;
                    e.exit();
                }
            }
            let elapsed = (clock::now_ms() - t_before) as f64;
            if adm >= 2 && elapsed + 2.0 < (adm - 1) as f64 * gap_ms {
                return err(format!("threshold raised and then the original hotspot throttling rule ({} per {} s) loaded again, yet {} requests of a never-seen value issued at one instant were admitted within {} ms", r.threshold, r.duration_in_sec, adm, elapsed));
            }
            Ok("there-and-back-hotspot-throttling")
        }
        6 => {
            let t = hot_rules(case, res, Change::None)[0].threshold;
            let mut adm = 0u64;
            let mut held = OpenEntries::new();
            for _ in 0..t + 2 {
                let mut req = Req::new(res, 1);
                req.args = Some(vec!["z-fresh".to_string()]);
                if let Ok(e) = build(req) {
                    adm += 1;
                    held.push(e);
                }
            }
            drop(held);
            if adm != t {
                return err(format!("threshold raised and then the original hotspot concurrency rule (threshold {}) loaded again, yet {} of {} simultaneously open requests of a never-seen value were admitted", t, adm, t + 2));
            }
            Ok("there-and-back-hotspot-concurrency")
        }
        _ => {
            // every failing request is slow and carries an error; with the original rule back in force the breaker opens
            let mut failed = 0u32;
            let mut rejected = false;
            for _ in 0..40 {
                match build(Req::new(res, 1)) {
                    Ok(e) => {
                        clock::advance_ms(101);
                        e.set_err(sentinel_core::Error::msg("biz"));
                        e.exit();
                        failed += 1;
                    }
                    Err(_) => {
                        rejected = true;
                        break;
                    }
                }
            }
            if !rejected {
                return err(format!("threshold raised to 1e9 and then the original breaker rule {:?} loaded again, yet {} slow and failed requests in a row never opened it", cb_rules(case, res, Change::None)[0], failed));
            }
            Ok("there-and-back-breaker")
        }
    }
}

/// the fixed probe script of the one-field mode: (ms since the previous request, value index, hold the entry open)
const PROBE_SCRIPT: [(u64, usize, bool); 12] = [(0, 0, true), (0, 0, true), (0, 0, true), (0, 0, true), (50, 0, false), (50, 1, false), (100, 0, false), (300, 0, false), (500, 0, false), (1, 0, false), (1000, 0, false), (0, 0, false)];

fn probe_script(res: &String, warm_up: bool) -> Vec<String> {
    let mut obs = Vec::new();
    let mut held = OpenEntries::new();
    for (dt, v, hold) in PROBE_SCRIPT {
        clock::advance_ms(dt);
        let before = clock::now_ns();
        let n = if warm_up { 25 } else { 1 };
        let mut adm = 0;
        for _ in 0..n {
            let mut req = Req::new(res, 1);
            req.args = Some(vec![VALUES[v].to_string()]);
            if let Ok(e) = build(req) {
                adm += 1;
                if hold {
                    held.push(e);
                } else {
                    e.exit();
                }
            }
        }
        obs.push(format!("adm={} waited={}", adm, clock::now_ns() - before));
    }
    drop(held);
    obs
}

/// "One field": after the history everything is left idle for 30 s (every window, bucket, schedule and warm-up state has
/// expired by then), one parameter of the first rule is changed by the reload, and a fixed probe script runs. The same
/// script on a fresh resource on which the changed rule was loaded from the start, at the same clock phase, must see the
/// same decisions and waits - whatever the implementation carries over, nothing is left to carry.
fn one_field(case: &Case, res: &String, other: &String, third: &String, elapsed: u64) -> Result<&'static str, (String, String)> {
    if case.kind == 7 {
        return Ok("probe-not-applicable");
    }
    let change = Change::OneField(case.params[5]);
    let differs = match case.kind {
        0..=3 => params_differ(&*flow_rules(case, res, Change::None)[0], &*flow_rules(case, res, change)[0]),
        _ => params_differ(&*hot_rules(case, res, Change::None)[0], &*hot_rules(case, res, change)[0]),
    };
    if !differs {
        return Ok("probe-rule-equal-to-old");
    }
    clock::advance_ms(30_000);
    load(case, res, other, third, true, change);
    let a = probe_script(res, case.kind == 3);
    // reference: fresh resources, the changed rule from the start, same phase of every bucket
    util::reset_all();
    let t0 = (clock::now_ms() / 210_000 + 2) * 210_000;
    clock::set_ms(t0);
    let (res2, other2, third2) = (util::fresh_name("c11q"), util::fresh_name("c11qo"), util::fresh_name("c11qt"));
    load(case, &res2, &other2, &third2, false, change);
    clock::advance_ms(elapsed + 30_000);
    let b = probe_script(&res2, case.kind == 3);
    if a != b {
        let i = a.iter().zip(b.iter()).position(|(x, y)| x != y).unwrap_or(0);
        let what = match case.kind {
            0..=3 => format!("{:?} -> {:?}", flow_rules(case, res, Change::None)[0], flow_rules(case, res, change)[0]),
            _ => format!("{:?} -> {:?}", hot_rules(case, res, Change::None)[0], hot_rules(case, res, change)[0]),
        };
        return Err(("changed-rule-not-applied".into(), format!("one parameter changed by the reload ({}); after 30 s without traffic the probe script sees {:?} at step {} where a fresh resource under the changed rule sees {:?} (all: {:?} vs {:?})", what, a.get(i), i, b.get(i), a, b)));
    }
    Ok("one-field-change")
}

impl Property for C11 {
    fn id(&self) -> &'static str {
        "C11"
    }
    fn budget(&self, tier: Tier) -> Budget {
        match tier {
            Tier::Quick => Budget { cases: 5000, shards: 16, min_len: 40, max_len: 220 },
            Tier::Thorough => Budget { cases: 80_000, shards: 16, min_len: 40, max_len: 220 },
        }
    }
    fn rule(&self) -> String {
        "bytes -> scenario (flow reject on the global window / on a private 700 ms window, flow throttling, flow warm-up, hotspot QPS reject, hotspot QPS throttling, hotspot concurrency, circuit breaker), optionally a second rule on the same resource, a script of 4-33 steps (clock advance from a menu; request with batch/value, exit oldest open entry ok / with error), a reload position, reload through load_rules (with the unrelated resource kept / removed / changed / another added in the same call) or load_rules_of_resource, rules re-created with fresh ids and optionally reversed order; differential oracle: the observation sequence (admitted, block type, time slept, breaker states) of the run with the reload equals that of the run without it at the same virtual instants on fresh resources, and the controllers / breakers are the same objects (Arc::ptr_eq) before and after; changed rule: threshold -> 0 => the next request is rejected, threshold -> 1e9 => admitted; one field (2 cases in 9): after 30 s without traffic exactly one parameter of the first flow / hotspot rule is changed by the reload and a fixed probe script must see what a fresh resource under the changed rule sees at the same clock phase; there and back (2 cases in 9): one reload raises the threshold out of reach, the next loads the original rules again (independently chosen entry points), then the original rule is probed; replaced rule (3 cases in 9): the first rule is replaced by a different one (flow -> Reject(k) / Throttling 1 per s / WarmUp 30, hotspot -> QPS Reject(k) / Concurrency(k) / override 0 for a value, breaker -> ErrorCount(k)) and a probe burst right after the reload must show the new rule in force, with bounds that hold whether or not statistics are carried over; rule parameters (thresholds, intervals, bursts, queueing times, override tables, breaker strategies) come from menus; non-trivial = the reload happens after at least one admission and the remainder of the run contains a rejection, a wait or a non-closed breaker state; distinct = distinct decoded cases".into()
    }
    fn assumptions(&self) -> Vec<String> {
        vec![
            "virtual clock; both runs start on a multiple of 210 s (a common multiple of every generated bucket length) so every bucket phase is identical".into(),
            "the threshold -> 1e9 clause is only used where it does not depend on carried-over counts (flow reject, circuit breaker)".into(),
        ]
    }
    fn run(&self, bytes: &[u8], cfg: &RunCfg) -> Verdict {
        let mut u = Bytes::new(bytes);
        let case = decode(&mut u);
        let fam = ["flow-global", "flow-private", "flow-throttling", "flow-warmup", "hotspot-reject", "hotspot-throttling", "hotspot-concurrency", "breaker"][case.kind as usize];
        let fail = |clause: &str, detail: String| {
            Verdict::Fail(Failure { clause: clause.into(), key: format!("C11|{}|{}", fam, clause), detail, decoded: serde_json::to_value(&case).unwrap() })
        };
        let a = run(&case, false, Change::None);
        let b = run(&case, true, Change::None);
        if b.ptr_kept == Some(false) {
            return fail("controller-replaced", format!("reloading equal rules (fresh ids{}) replaced the {} of the resource", if case.shuffle { ", reversed order" } else { "" }, if case.kind == 7 { "breakers" } else { "controllers" }));
        }
        if a.obs != b.obs {
            let i = a.obs.iter().zip(b.obs.iter()).position(|(x, y)| x != y).unwrap_or(0);
            return fail("state-lost-on-reload", format!("step {} (reload before step {}): without reload {:?}, with reload {:?}", i, case.reload_at, a.obs.get(i), b.obs.get(i)));
        }
        let mut classes = vec![fam];
        if case.change != 0 {
            let applicable = match (case.kind, case.change) {
                (0, 1) | (1, 1) => true,
                // raising one rule's threshold admits the next request only if no other rule can reject it
                (0, 2) | (1, 2) => !case.two_rules,
                (2, 1) => true,
                // a per-value override replaces the threshold for that value: the clause applies to values without one
                (4, 1) | (5, 1) => pm(&case, 3, &[0u8, 1, 2]) == 0 || case.steps.get(case.reload_at).map(|s| s.value == 0).unwrap_or(false),
                (7, 2) => true,
                _ => false,
            };
            // the step right after the reload must be a request for the clause to apply
            let next_is_req = case.steps.get(case.reload_at).map(|s| s.op < 6).unwrap_or(false);
            if applicable && next_is_req {
                let c = run(&case, true, if case.change == 1 { Change::ThresholdZero } else { Change::ThresholdHuge });
                match (case.change, c.next_after_change) {
                    (1, Some(true)) => return fail("changed-rule-not-applied", "threshold changed to 0 by the reload, yet the very next request was admitted".into()),
                    (2, Some(false)) => return fail("changed-rule-not-applied", "threshold changed to 1e9 by the reload, yet the very next request was rejected".into()),
                    _ => {}
                }
                classes.push("changed-rule");
            }
        }
        if case.probe != 0 {
            match run_probe(&case) {
                Ok(c) => classes.push(c),
                Err((clause, detail)) => return fail(&clause, detail),
            }
        }
        classes.push(if case.via_resource_api { "reload-via-load_rules_of_resource" } else { "reload-via-load_rules" });
        if !case.via_resource_api {
            classes.push(["other-kept", "other-removed", "other-changed", "other-added"][case.others as usize]);
        }
        let tail_interesting = b.obs[case.reload_at.min(b.obs.len())..].iter().any(|o| o.contains("adm=0 ") || (o.contains("waited=") && !o.contains("waited=0")) || o.contains("Open"));
        if b.live_at_reload { classes.push("reload-with-live-state"); }
        Verdict::Pass(CaseReport {
            nontrivial: b.live_at_reload && tail_interesting,
            classes,
            digest: digest_of(&case),
            decoded: if cfg.want_decoded { serde_json::to_value(&case).ok() } else { None },
            known_hits: vec![],
            counters: vec![],
        })
    }
}
