//! C11 — hot reload keeps the state of unchanged rules and applies changed ones at once.
use super::common::*;
use crate::engine::*;
use crate::util::{self, clock};
use sentinel_core::{circuitbreaker as cb, flow, hotspot};
use serde::Serialize;
use std::sync::Arc;

pub struct C11;

#[derive(Debug, Clone, Serialize)]
pub struct Step {
    pub dt: u64,
    /// 0..=5 request (batch / value derived), 6 exit oldest ok, 7 exit oldest with error
    pub op: u8,
    pub batch: u32,
    pub value: usize,
}

#[derive(Debug, Clone, Serialize)]
pub struct Case {
    /// 0 flow reject global window, 1 flow reject private window, 2 flow throttling, 3 flow warm-up,
    /// 4 hotspot QPS reject, 5 hotspot QPS throttling, 6 hotspot concurrency, 7 circuit breaker
    pub kind: u8,
    pub two_rules: bool,
    pub steps: Vec<Step>,
    pub reload_at: usize,
    /// reload through load_rules_of_resource instead of load_rules
    pub via_resource_api: bool,
    /// what happens to the unrelated resource in the same load_rules call: 0 kept, 1 removed, 2 changed, 3 another added
    pub others: u8,
    pub shuffle: bool,
    /// 0 none, 1 threshold -> 0, 2 threshold -> 1e9 (only where the assertion is state independent)
    pub change: u8,
}

pub fn decode(u: &mut Bytes) -> Case {
    let kind = u.choice(8) as u8;
    // a second rule only where the evaluation order of a resource's rules (a HashSet order that may
    // differ between any two loads) cannot influence the outcome: Reject checks have no side effects
    let two_rules = u.bool() && kind <= 1;
    let n = 4 + u.choice(30);
    let steps: Vec<Step> = (0..n)
        .map(|_| Step {
            dt: [0u64, 0, 1, 50, 100, 200, 250, 300, 499, 500, 700, 1000, 1001, 2000][u.choice(14)],
            op: u.choice(8) as u8,
            batch: 1 + u.choice(2) as u32,
            value: u.choice(2),
        })
        .collect();
    let reload_at = 1 + u.choice(n - 1);
    Case {
        kind,
        two_rules,
        steps,
        reload_at,
        via_resource_api: u.bool(),
        others: u.choice(4) as u8,
        shuffle: u.bool(),
        change: [0u8, 0, 0, 1, 2][u.choice(5)],
    }
}

const VALUES: [&str; 2] = ["p", "q"];

/// the rules of the resource under test: fresh objects (fresh ids) on every call
fn flow_rules(kind: u8, two: bool, res: &str, threshold_override: Option<f64>) -> Vec<Arc<flow::Rule>> {
    let base = flow::Rule { resource: res.into(), ..Default::default() };
    let mut v = match kind {
        0 => vec![flow::Rule { threshold: 3.0, stat_interval_ms: 1000, ..base.clone() }],
        1 => vec![flow::Rule { threshold: 3.0, stat_interval_ms: 700, ..base.clone() }],
        2 => vec![flow::Rule { threshold: 5.0, control_strategy: flow::ControlStrategy::Throttling, max_queueing_time_ms: 500, stat_interval_ms: 1000, ..base.clone() }],
        _ => vec![flow::Rule { threshold: 30.0, calculate_strategy: flow::CalculateStrategy::WarmUp, warm_up_period_sec: 2, warm_up_cold_factor: 3, ..base.clone() }],
    };
    if two {
        v.push(flow::Rule { threshold: 8.0, stat_interval_ms: 2000, ..base });
    }
    if let Some(t) = threshold_override {
        v[0].threshold = t;
    }
    v.into_iter().map(Arc::new).collect()
}

fn hot_rules(kind: u8, two: bool, res: &str, threshold_override: Option<u64>) -> Vec<Arc<hotspot::Rule>> {
    let base = hotspot::Rule { resource: res.into(), param_index: 0, duration_in_sec: 1, ..Default::default() };
    let mut v = match kind {
        4 => vec![hotspot::Rule { metric_type: hotspot::MetricType::QPS, control_strategy: hotspot::ControlStrategy::Reject, threshold: 2, burst_count: 1, ..base.clone() }],
        5 => vec![hotspot::Rule { metric_type: hotspot::MetricType::QPS, control_strategy: hotspot::ControlStrategy::Throttling, threshold: 5, max_queueing_time_ms: 300, ..base.clone() }],
        _ => vec![hotspot::Rule { metric_type: hotspot::MetricType::Concurrency, threshold: 2, ..base.clone() }],
    };
    if two {
        v.push(hotspot::Rule { metric_type: hotspot::MetricType::QPS, control_strategy: hotspot::ControlStrategy::Reject, threshold: 6, duration_in_sec: 2, ..base });
    }
    if let Some(t) = threshold_override {
        v[0].threshold = t;
    }
    v.into_iter().map(Arc::new).collect()
}

fn cb_rules(two: bool, res: &str, threshold_override: Option<f64>) -> Vec<Arc<cb::Rule>> {
    let base = cb::Rule { resource: res.into(), retry_timeout_ms: 300, stat_interval_ms: 1000, min_request_amount: 1, ..Default::default() };
    let mut v = vec![cb::Rule { strategy: cb::BreakerStrategy::ErrorCount, threshold: 2.0, ..base.clone() }];
    if two {
        v.push(cb::Rule { strategy: cb::BreakerStrategy::ErrorRatio, threshold: 0.75, stat_sliding_window_bucket_count: 2, ..base });
    }
    if let Some(t) = threshold_override {
        v[0].threshold = t;
    }
    v.into_iter().map(Arc::new).collect()
}

struct Run {
    obs: Vec<String>,
    ptr_kept: Option<bool>,
    next_after_change: Option<bool>,
    live_at_reload: bool,
}

fn ptrs(kind: u8, res: &String) -> Vec<usize> {
    let mut v: Vec<usize> = match kind {
        0..=3 => flow::get_traffic_controller_list_for(res).iter().map(|c| Arc::as_ptr(c) as *const () as usize).collect(),
        4..=6 => hotspot::get_traffic_controller_list_for(res).iter().map(|c| Arc::as_ptr(c) as *const () as usize).collect(),
        _ => cb::get_breakers_of_resource(res).iter().map(|c| Arc::as_ptr(c) as *const () as usize).collect(),
    };
    v.sort();
    v
}

fn load(case: &Case, res: &String, other: &String, third: &String, reload: bool, change: u8) {
    let kind = case.kind;
    // what the unrelated resource looks like in this call
    let others = if reload { case.others } else { 0 };
    match kind {
        0..=3 => {
            let thr = match change {
                1 => Some(0.0),
                2 => Some(1e9),
                _ => None,
            };
            let mut mine = flow_rules(kind, case.two_rules, res, thr);
            if reload && case.shuffle {
                mine.reverse();
            }
            if reload && case.via_resource_api {
                let _ = flow::load_rules_of_resource(res, mine);
                return;
            }
            let mut all = mine;
            match others {
                0 => all.insert(0, Arc::new(flow::Rule { resource: other.clone(), threshold: 5.0, ..Default::default() })),
                2 => all.push(Arc::new(flow::Rule { resource: other.clone(), threshold: 6.0, ..Default::default() })),
                3 => {
                    all.push(Arc::new(flow::Rule { resource: other.clone(), threshold: 5.0, ..Default::default() }));
                    all.insert(0, Arc::new(flow::Rule { resource: third.clone(), threshold: 1.0, ..Default::default() }));
                }
                _ => {}
            }
            flow::load_rules(all);
        }
        4..=6 => {
            let thr = match change {
                1 => Some(0u64),
                _ => None,
            };
            let mut mine = hot_rules(kind, case.two_rules, res, thr);
            if reload && case.shuffle {
                mine.reverse();
            }
            if reload && case.via_resource_api {
                let _ = hotspot::load_rules_of_resource(res, mine);
                return;
            }
            let mut all = mine;
            let o = |t: u64, r: &String| Arc::new(hotspot::Rule { resource: r.clone(), metric_type: hotspot::MetricType::Concurrency, threshold: t, ..Default::default() });
            match others {
                0 => all.insert(0, o(5, other)),
                2 => all.push(o(6, other)),
                3 => {
                    all.push(o(5, other));
                    all.insert(0, o(1, third));
                }
                _ => {}
            }
            hotspot::load_rules(all);
        }
        _ => {
            let thr = match change {
                2 => Some(1e9),
                _ => None,
            };
            let mut mine = cb_rules(case.two_rules, res, thr);
            if reload && case.shuffle {
                mine.reverse();
            }
            if reload && case.via_resource_api {
                let _ = cb::load_rules_of_resource(res, mine);
                return;
            }
            let mut all = mine;
            let o = |t: f64, r: &String| Arc::new(cb::Rule { resource: r.clone(), strategy: cb::BreakerStrategy::ErrorCount, threshold: t, retry_timeout_ms: 100, stat_interval_ms: 1000, ..Default::default() });
            match others {
                0 => all.insert(0, o(5.0, other)),
                2 => all.push(o(6.0, other)),
                3 => {
                    all.push(o(5.0, other));
                    all.insert(0, o(1.0, third));
                }
                _ => {}
            }
            cb::load_rules(all);
        }
    }
}

/// run the script; `reload` = perform the reload at `case.reload_at`; `change` as in Case
fn run(case: &Case, reload: bool, change: u8) -> Run {
    util::reset_all();
    let t0 = (clock::new_case_epoch() / 70_000 + 1) * 70_000;
    clock::set_ms(t0);
    let res = util::fresh_name("c11");
    let other = util::fresh_name("c11o");
    let third = util::fresh_name("c11t");
    load(case, &res, &other, &third, false, 0);
    let mut open = OpenEntries::new();
    let mut order: Vec<usize> = Vec::new();
    let mut obs = Vec::new();
    let mut ptr_kept = None;
    let mut next_after_change = None;
    let mut live_at_reload = false;
    let mut admitted_before = 0u32;
    for (i, s) in case.steps.iter().enumerate() {
        if reload && i == case.reload_at {
            let before = ptrs(case.kind, &res);
            live_at_reload = admitted_before > 0;
            load(case, &res, &other, &third, true, change);
            let after = ptrs(case.kind, &res);
            ptr_kept = Some(before == after);
        }
        clock::advance_ms(s.dt);
        let before_ns = clock::now_ns();
        match s.op {
            6 | 7 => {
                if !order.is_empty() {
                    let idx = order.remove(0);
                    if s.op == 7 {
                        if let Some(Some(e)) = open.0.get(idx) {
                            e.set_err(sentinel_core::Error::msg("biz"));
                        }
                    }
                    open.exit(idx);
                    obs.push("exit".into());
                } else {
                    obs.push("noop".into());
                }
            }
            _ => {
                let n_req = if case.kind == 3 { 12 } else { 1 }; // warm-up: a burst per step
                let mut adm = 0;
                let mut last_bt = String::new();
                for _ in 0..n_req {
                    let mut req = Req::new(&res, if case.kind == 3 { 1 } else { s.batch });
                    req.args = Some(vec![VALUES[s.value].to_string()]);
                    match build(req) {
                        Ok(e) => {
                            adm += 1;
                            let idx = open.push(e);
                            if case.kind == 6 || case.kind == 7 {
                                order.push(idx); // stays open until an exit step
                            } else {
                                open.exit(idx);
                            }
                        }
                        Err(m) => last_bt = block_type_of(&m),
                    }
                }
                if reload && change != 0 && i >= case.reload_at && next_after_change.is_none() {
                    next_after_change = Some(adm > 0);
                }
                if i < case.reload_at {
                    admitted_before += adm;
                }
                let waited = clock::now_ns() - before_ns;
                let states: Vec<String> = if case.kind == 7 {
                    cb::get_breakers_of_resource(&res).iter().map(|b| format!("{:?}:{:?}", b.bound_rule().strategy, b.current_state())).collect::<std::collections::BTreeSet<_>>().into_iter().collect()
                } else {
                    vec![]
                };
                obs.push(format!("adm={} blk={} waited={} {:?}", adm, last_bt, waited, states));
            }
        }
    }
    drop(open);
    Run { obs, ptr_kept, next_after_change, live_at_reload }
}

impl Property for C11 {
    fn id(&self) -> &'static str {
        "C11"
    }
    fn budget(&self, tier: Tier) -> Budget {
        match tier {
            Tier::Quick => Budget { cases: 3000, shards: 16, min_len: 24, max_len: 160 },
            Tier::Thorough => Budget { cases: 80_000, shards: 16, min_len: 24, max_len: 160 },
        }
    }
    fn rule(&self) -> String {
        "bytes -> scenario (flow reject on the global window / on a private 700 ms window, flow throttling, flow warm-up, hotspot QPS reject, hotspot QPS throttling, hotspot concurrency, circuit breaker), optionally a second rule on the same resource, a script of 4-33 steps (clock advance from a menu; request with batch/value, exit oldest open entry ok / with error), a reload position, reload through load_rules (with the unrelated resource kept / removed / changed / another added in the same call) or load_rules_of_resource, rules re-created with fresh ids and optionally reversed order; differential oracle: the observation sequence (admitted, block type, time slept, breaker states) of the run with the reload equals that of the run without it at the same virtual instants on fresh resources, and the controllers / breakers are the same objects (Arc::ptr_eq) before and after; changed rule: threshold -> 0 => the next request is rejected, threshold -> 1e9 => admitted; non-trivial = the reload happens after at least one admission and the remainder of the run contains a rejection, a wait or a non-closed breaker state; distinct = distinct decoded cases".into()
    }
    fn assumptions(&self) -> Vec<String> {
        vec![
            "virtual clock; both runs start on a multiple of 70 s so every bucket phase is identical".into(),
            "the threshold -> 1e9 clause is only used where it does not depend on carried-over counts (flow reject, circuit breaker)".into(),
        ]
    }
    fn run(&self, bytes: &[u8], cfg: &RunCfg) -> Verdict {
        let mut u = Bytes::new(bytes);
        let case = decode(&mut u);
        let fam = ["flow-global", "flow-private", "flow-throttling", "flow-warmup", "hotspot-reject", "hotspot-throttling", "hotspot-concurrency", "breaker"][case.kind as usize];
        let fail = |clause: &str, detail: String| {
            Verdict::Fail(Failure { clause: clause.into(), key: format!("C11|{}|{}", fam, clause), detail, decoded: serde_json::to_value(&case).unwrap() })
        };
        let a = run(&case, false, 0);
        let b = run(&case, true, 0);
        if b.ptr_kept == Some(false) {
            return fail("controller-replaced", format!("reloading equal rules (fresh ids{}) replaced the {} of the resource", if case.shuffle { ", reversed order" } else { "" }, if case.kind == 7 { "breakers" } else { "controllers" }));
        }
        if a.obs != b.obs {
            let i = a.obs.iter().zip(b.obs.iter()).position(|(x, y)| x != y).unwrap_or(0);
            return fail("state-lost-on-reload", format!("step {} (reload before step {}): without reload {:?}, with reload {:?}", i, case.reload_at, a.obs.get(i), b.obs.get(i)));
        }
        let mut classes = vec![fam];
        if case.change != 0 {
            let applicable = match (case.kind, case.change) {
                (0, 1) | (1, 1) => true,
                // raising one rule's threshold admits the next request only if no other rule can reject it
                (0, 2) | (1, 2) => !case.two_rules,
                (2, 1) => true,
                (4, 1) | (5, 1) => true,
                (7, 2) => true,
                _ => false,
            };
            // the step right after the reload must be a request for the clause to apply
            let next_is_req = case.steps.get(case.reload_at).map(|s| s.op < 6).unwrap_or(false);
            if applicable && next_is_req {
                let c = run(&case, true, case.change);
                match (case.change, c.next_after_change) {
                    (1, Some(true)) => return fail("changed-rule-not-applied", "threshold changed to 0 by the reload, yet the very next request was admitted".into()),
                    (2, Some(false)) => return fail("changed-rule-not-applied", "threshold changed to 1e9 by the reload, yet the very next request was rejected".into()),
                    _ => {}
                }
                classes.push("changed-rule");
            }
        }
        classes.push(if case.via_resource_api { "reload-via-load_rules_of_resource" } else { "reload-via-load_rules" });
        if !case.via_resource_api {
            classes.push(["other-kept", "other-removed", "other-changed", "other-added"][case.others as usize]);
        }
        let tail_interesting = b.obs[case.reload_at.min(b.obs.len())..].iter().any(|o| o.contains("adm=0 ") || (o.contains("waited=") && !o.contains("waited=0")) || o.contains("Open"));
        if b.live_at_reload { classes.push("reload-with-live-state"); }
        Verdict::Pass(CaseReport {
            nontrivial: b.live_at_reload && tail_interesting,
            classes,
            digest: digest_of(&case),
            decoded: if cfg.want_decoded { serde_json::to_value(&case).ok() } else { None },
            known_hits: vec![],
            counters: vec![],
        })
    }
}
