//! C13 — slot chain contract: ordered run, block iff a check blocked, one notification.
use super::common::*;
use crate::engine::*;
use crate::fail;
use sentinel_core::api::EntryBuilder;
use sentinel_core::base::{
    BaseSlot, BlockError, BlockType, EntryContext, RuleCheckSlot, SlotChain, StatPrepareSlot,
    StatSlot, TokenResult,
};
use serde::Serialize;
use std::sync::{Arc, Mutex};

pub struct C13;

#[derive(Debug, Clone, Copy, Serialize, PartialEq)]
pub enum Res {
    Pass,
    Blocked,
    Wait,
}

#[derive(Debug, Clone, Serialize)]
pub struct Case {
    /// order value of each preparation slot, in insertion order
    pub preps: Vec<u32>,
    /// (order, result) of each check slot, in insertion order
    pub checks: Vec<(u32, Res)>,
    pub stats: Vec<u32>,
    /// insertion interleaving of the three kinds (0 prep, 1 check, 2 stat)
    pub insertion: Vec<u8>,
}

const ORDERS: [u32; 5] = [0, 1, 1, 2, 7];

pub fn decode(u: &mut Bytes) -> Case {
    let np = u.choice(5);
    let nc = u.choice(5);
    let ns = u.choice(5);
    let preps = (0..np).map(|_| ORDERS[u.choice(5)]).collect();
    let checks = (0..nc)
        .map(|_| (ORDERS[u.choice(5)], [Res::Pass, Res::Blocked, Res::Wait, Res::Pass][u.choice(4)]))
        .collect();
    let stats = (0..ns).map(|_| ORDERS[u.choice(5)]).collect();
    // order values are arbitrary u32: a palette drawn from the tail replaces the small menu in half of the cases
    // (the library's own slots use 1000..5000; values at and above 2^31 and arbitrary 32-bit values are legitimate)
    let palette: Option<[u32; 5]> = match u.tail_choice(6) {
        0 | 1 | 2 => None,
        3 => Some([1000, 2000, 2000, 5000, u32::MAX]),
        4 => Some([0, (1u32 << 31) - 1, 1u32 << 31, 1u32 << 31, u32::MAX]),
        _ => {
            let mut a = [0u32; 5];
            for x in a.iter_mut() {
                *x = ((u.tail_u8() as u32) << 24) | ((u.tail_u8() as u32) << 16) | ((u.tail_u8() as u32) << 8) | u.tail_u8() as u32;
            }
            a[2] = a[1]; // keep a tie
            Some(a)
        }
    };
    let remap = |o: u32| -> u32 {
        match &palette {
            None => o,
            Some(p) => p[ORDERS.iter().position(|x| *x == o).unwrap_or(0).max(if o == 1 { 1 } else { 0 })],
        }
    };
    let preps: Vec<u32> = preps;
    let preps = preps.into_iter().map(remap).collect();
    let checks: Vec<(u32, Res)> = checks;
    let checks = checks.into_iter().map(|(o, r)| (remap(o), r)).collect();
    let stats: Vec<u32> = stats;
    let stats = stats.into_iter().map(remap).collect();
    // a generated interleaving of insertions
    let mut remaining = [np, nc, ns];
    let mut insertion = Vec::new();
    while remaining.iter().sum::<usize>() > 0 {
        let mut k = u.choice(3);
        while remaining[k] == 0 {
            k = (k + 1) % 3;
        }
        remaining[k] -= 1;
        insertion.push(k as u8);
    }
    Case { preps, checks, stats, insertion }
}

#[derive(Debug, Clone, PartialEq)]
enum Ev {
    Prep(usize),
    Check(usize),
    StatPass(usize),
    StatBlocked(usize, String, String),
    StatCompleted(usize),
}

type Log = Arc<Mutex<Vec<Ev>>>;

struct P(usize, u32, Log);
struct C(usize, u32, Res, Log);
struct S(usize, u32, Log);

impl BaseSlot for P {
    fn order(&self) -> u32 {
        self.1
    }
}
impl StatPrepareSlot for P {
    fn prepare(&self, _ctx: &mut EntryContext) {
        self.2.lock().unwrap().push(Ev::Prep(self.0));
    }
}
impl BaseSlot for C {
    fn order(&self) -> u32 {
        self.1
    }
}
impl RuleCheckSlot for C {
    fn check(&self, _ctx: &mut EntryContext) -> TokenResult {
        self.3.lock().unwrap().push(Ev::Check(self.0));
        match self.2 {
            Res::Pass => TokenResult::new_pass(),
            Res::Wait => TokenResult::new_should_wait(0),
            Res::Blocked => TokenResult::new_blocked_with_msg(BlockType::Other(100 + self.0 as u8), format!("msg {}", self.0)),
        }
    }
}
impl BaseSlot for S {
    fn order(&self) -> u32 {
        self.1
    }
}
impl StatSlot for S {
    fn on_entry_pass(&self, _ctx: &EntryContext) {
        self.2.lock().unwrap().push(Ev::StatPass(self.0));
    }
    fn on_entry_blocked(&self, _ctx: &EntryContext, e: BlockError) {
        self.2.lock().unwrap().push(Ev::StatBlocked(self.0, format!("{:?}", e.block_type()), e.block_msg()));
    }
    fn on_completed(&self, _ctx: &mut EntryContext) {
        self.2.lock().unwrap().push(Ev::StatCompleted(self.0));
    }
}

/// returns Err((clause, detail)) on a contract violation
pub fn judge(case: &Case) -> Result<(bool, bool), (String, String)> {
    let log: Log = Arc::new(Mutex::new(Vec::new()));
    let mut sc = SlotChain::new();
    let (mut ip, mut ic, mut is) = (0usize, 0usize, 0usize);
    for k in &case.insertion {
        match k {
            0 => {
                sc.add_stat_prepare_slot(Arc::new(P(ip, case.preps[ip], log.clone())));
                ip += 1;
            }
            1 => {
                sc.add_rule_check_slot(Arc::new(C(ic, case.checks[ic].0, case.checks[ic].1, log.clone())));
                ic += 1;
            }
            _ => {
                sc.add_stat_slot(Arc::new(S(is, case.stats[is], log.clone())));
                is += 1;
            }
        }
    }
    let sc = Arc::new(sc);
    let r = EntryBuilder::new("c13-resource".to_string()).with_slot_chain(sc).build();
    let passed = r.is_ok();
    let err_text = r.as_ref().err().map(|e| e.to_string());
    let entry_log: Vec<Ev> = log.lock().unwrap().clone();
    if let Ok(e) = &r {
        e.exit();
    }
    drop(r);
    let full: Vec<Ev> = log.lock().unwrap().clone();
    let exit_log: Vec<Ev> = full[entry_log.len()..].to_vec();

    // --- phases: prepares, then checks, then stats
    let phase = |e: &Ev| match e {
        Ev::Prep(_) => 0,
        Ev::Check(_) => 1,
        _ => 2,
    };
    for w in entry_log.windows(2) {
        if phase(&w[0]) > phase(&w[1]) {
            return Err(("phase-order".into(), format!("{:?} ran before {:?}", w[0], w[1])));
        }
    }
    // --- prepares: every one exactly once, ascending order values
    let preps: Vec<usize> = entry_log.iter().filter_map(|e| if let Ev::Prep(i) = e { Some(*i) } else { None }).collect();
    let mut sorted = preps.clone();
    sorted.sort();
    if sorted != (0..case.preps.len()).collect::<Vec<_>>() {
        return Err(("prepare-not-once".into(), format!("prepare slots run: {:?} of {}", preps, case.preps.len())));
    }
    if preps.windows(2).any(|w| case.preps[w[0]] > case.preps[w[1]]) {
        return Err(("prepare-order".into(), format!("prepare slots ran in order {:?} with order values {:?}", preps, case.preps)));
    }
    // --- checks: each at most once, ascending; all of them, or stop right after a blocking one
    let checks: Vec<usize> = entry_log.iter().filter_map(|e| if let Ev::Check(i) = e { Some(*i) } else { None }).collect();
    let mut sorted = checks.clone();
    sorted.sort();
    sorted.dedup();
    if sorted.len() != checks.len() {
        return Err(("check-twice".into(), format!("a check slot ran twice: {:?}", checks)));
    }
    if checks.windows(2).any(|w| case.checks[w[0]].0 > case.checks[w[1]].0) {
        return Err(("check-order".into(), format!("check slots ran in order {:?} with order values {:?}", checks, case.checks)));
    }
    if checks.len() != case.checks.len() {
        // tolerated only as an early stop right after a blocking slot, and only if nothing with a
        // smaller order value was skipped
        let last_blocked = checks.last().map(|i| case.checks[*i].1 == Res::Blocked).unwrap_or(false);
        let max_run = checks.iter().map(|i| case.checks[*i].0).max().unwrap_or(0);
        let skipped_smaller = (0..case.checks.len()).any(|i| !checks.contains(&i) && case.checks[i].0 < max_run);
        if !last_blocked || skipped_smaller {
            return Err(("check-skipped".into(), format!("check slots run: {:?} of {:?}", checks, case.checks)));
        }
    }
    let blockers: Vec<usize> = checks.iter().cloned().filter(|i| case.checks[*i].1 == Res::Blocked).collect();
    let expect_blocked = !blockers.is_empty();
    if passed == expect_blocked {
        return Err((
            if passed { "passed-despite-block".into() } else { "blocked-without-block".into() },
            format!("build() {} but blocking check slots that ran: {:?}", if passed { "passed" } else { "was blocked" }, blockers),
        ));
    }
    // --- the error delivered is one produced by a slot that blocked
    let is_blocker_err = |bt: &str, msg: &str| blockers.iter().any(|i| bt == format!("Other({})", 100 + i) && msg == format!("msg {}", i));
    if let Some(t) = &err_text {
        let bt = block_type_of(t);
        let ok = blockers.iter().any(|i| bt == format!("Other({})", 100 + i) && t.contains(&format!("\"msg {}\"", i)));
        if !ok {
            return Err(("foreign-error".into(), format!("Err text {:?} is not from a blocking slot {:?}", t, blockers)));
        }
    }
    // --- stats: each exactly one notification at entry, of the right kind, ascending
    let stats: Vec<usize> = entry_log
        .iter()
        .filter_map(|e| match e {
            Ev::StatPass(i) | Ev::StatBlocked(i, _, _) | Ev::StatCompleted(i) => Some(*i),
            _ => None,
        })
        .collect();
    let mut sorted = stats.clone();
    sorted.sort();
    if sorted != (0..case.stats.len()).collect::<Vec<_>>() {
        return Err(("stat-not-once".into(), format!("stat notifications at entry: {:?} for {} slots", entry_log.iter().filter(|e| phase(e) == 2).collect::<Vec<_>>(), case.stats.len())));
    }
    if stats.windows(2).any(|w| case.stats[w[0]] > case.stats[w[1]]) {
        return Err(("stat-order".into(), format!("stat slots notified in order {:?} with order values {:?}", stats, case.stats)));
    }
    for e in entry_log.iter() {
        match e {
            Ev::StatPass(_) if !passed => return Err(("pass-notification-for-blocked".into(), format!("{:?}", e))),
            Ev::StatBlocked(_, bt, msg) => {
                if passed {
                    return Err(("blocked-notification-for-passed".into(), format!("{:?}", e)));
                }
                if !is_blocker_err(bt, msg) {
                    return Err(("foreign-error".into(), format!("stat slot received {:?} which no blocking slot produced", e)));
                }
            }
            Ev::StatCompleted(_) => return Err(("completed-at-entry".into(), format!("{:?}", e))),
            _ => {}
        }
    }
    // --- exit: completion exactly once per stat slot iff passed
    let comps: Vec<usize> = exit_log.iter().filter_map(|e| if let Ev::StatCompleted(i) = e { Some(*i) } else { None }).collect();
    if exit_log.len() != comps.len() {
        return Err(("unexpected-call-on-exit".into(), format!("{:?}", exit_log)));
    }
    if passed {
        let mut sorted = comps.clone();
        sorted.sort();
        if sorted != (0..case.stats.len()).collect::<Vec<_>>() {
            return Err(("completion-not-once".into(), format!("completions on exit: {:?} for {} stat slots", comps, case.stats.len())));
        }
        if comps.windows(2).any(|w| case.stats[w[0]] > case.stats[w[1]]) {
            return Err(("completion-order".into(), format!("completions in order {:?} with order values {:?}", comps, case.stats)));
        }
    } else if !comps.is_empty() {
        return Err(("completion-for-blocked".into(), format!("blocked entry produced completions {:?}", comps)));
    }
    let blocker_not_last = blockers.iter().any(|i| checks.last() != Some(i));
    let ties = case.checks.len() >= 2 && {
        let mut o: Vec<u32> = case.checks.iter().map(|c| c.0).collect();
        o.sort();
        o.windows(2).any(|w| w[0] == w[1])
    };
    Ok((case.checks.len() >= 2 && (blocker_not_last || blockers.len() >= 2 || ties), passed))
}

impl Property for C13 {
    fn id(&self) -> &'static str {
        "C13"
    }
    fn budget(&self, tier: Tier) -> Budget {
        match tier {
            Tier::Quick => Budget { cases: 24_000, shards: 16, min_len: 8, max_len: 64 },
            Tier::Thorough => Budget { cases: 400_000, shards: 16, min_len: 8, max_len: 64 },
        }
    }
    fn fuzz_targets(&self) -> Vec<(&'static str, u64, usize)> {
        vec![("prop", 500_000, 64)]
    }
    fn rule(&self) -> String {
        "bytes -> custom SlotChain with 0..4 prepare, check and stat slots, order values from {0,1,1,2,7} (ties) or, in half of the cases, from a palette of large values ({1000,2000,2000,5000,u32::MAX}, {0,2^31-1,2^31,2^31,u32::MAX}, or five arbitrary 32-bit values with a tie), a generated insertion interleaving, each check slot returning Pass / Blocked(Other(100+i), \"msg i\") / Wait(0); build() then exit() once if passed; the call log of the recording slots is judged against the contract; plus an exhaustive enumeration of all chains with <= 2 slots per kind over orders {0,1,7,u32::MAX} (reported under coverage.extra); non-trivial = >= 2 check slots with the blocker not last, or several blockers, or equal order values; distinct = distinct decoded cases".into()
    }
    fn assumptions(&self) -> Vec<String> {
        vec![
            "check slots only return their result (they do not call ctx.set_result themselves), which is the documented trait contract".into(),
            "a chain that stops right after the first blocking check slot is accepted as well as one that runs every check slot (the statement fixes the order, not whether later slots still run)".into(),
            "among slots with equal order values any relative order is accepted".into(),
        ]
    }
    fn run(&self, bytes: &[u8], cfg: &RunCfg) -> Verdict {
        let mut u = Bytes::new(bytes);
        let case = decode(&mut u);
        match judge(&case) {
            Err((clause, detail)) => {
                fail!("C13", clause, clause, &case, "{}", detail);
            }
            Ok((nontrivial, passed)) => Verdict::Pass(CaseReport {
                nontrivial,
                classes: vec![if passed { "passed" } else { "blocked" }],
                digest: digest_of(&case),
                decoded: if cfg.want_decoded { serde_json::to_value(&case).ok() } else { None },
                known_hits: vec![],
                counters: vec![],
            }),
        }
    }
    fn extra(&self, _tier: Tier) -> Option<Result<(u64, serde_json::Value), Failure>> {
        // exhaustive: <= 2 slots per kind, orders {0,1,7}, all results, both insertion orders of kinds
        let orders = [0u32, 1, 7, u32::MAX];
        let results = [Res::Pass, Res::Blocked, Res::Wait];
        let mut n = 0u64;
        let mut kinds: Vec<Vec<u32>> = vec![vec![]];
        for a in orders {
            kinds.push(vec![a]);
            for b in orders {
                kinds.push(vec![a, b]);
            }
        }
        let mut check_sets: Vec<Vec<(u32, Res)>> = vec![vec![]];
        for a in orders {
            for ra in results {
                check_sets.push(vec![(a, ra)]);
                for b in orders {
                    for rb in results {
                        check_sets.push(vec![(a, ra), (b, rb)]);
                    }
                }
            }
        }
        for preps in &kinds {
            for checks in &check_sets {
                for stats in &kinds {
                    for perm in 0..2 {
                        let mut insertion = Vec::new();
                        let groups: Vec<(u8, usize)> = if perm == 0 {
                            vec![(0, preps.len()), (1, checks.len()), (2, stats.len())]
                        } else {
                            vec![(2, stats.len()), (1, checks.len()), (0, preps.len())]
                        };
                        for (k, c) in groups {
                            for _ in 0..c {
                                insertion.push(k);
                            }
                        }
                        let case = Case { preps: preps.clone(), checks: checks.clone(), stats: stats.clone(), insertion };
                        n += 1;
                        if let Err((clause, detail)) = judge(&case) {
                            return Some(Err(Failure {
                                clause: clause.clone(),
                                key: format!("C13|{}", clause),
                                detail,
                                decoded: serde_json::to_value(&case).unwrap(),
                            }));
                        }
                    }
                }
            }
        }
        Some(Ok((n, serde_json::json!({"exhaustive_subdomain": "all chains with <= 2 slots per kind, order values in {0,1,7,u32::MAX}, every Pass/Blocked/Wait assignment, two insertion orders", "chains": n, "exhaustive": true}))))
    }
}
