//! C14 — concurrent entries share one statistics node, accounted without loss or excess.
use super::common::*;
use super::sched_common::*;
use crate::engine::*;
use crate::sched::{self, ctx};
use crate::util::{self, clock};
use sentinel_core::base::{ConcurrencyStat, EntryStrongPtr, MetricEvent, StatNode};
use sentinel_core::stat;
use serde::{Deserialize, Serialize};
use std::sync::{Arc, Mutex};

pub struct C14;

#[derive(Debug, Clone, Serialize, Deserialize)]
pub struct ThreadSpec {
    pub inbound: bool,
    /// (batch, exit it) per build
    pub pairs: Vec<(u32, bool)>,
}

#[derive(Debug, Clone, Serialize, Deserialize)]
pub struct Case {
    pub threads: Vec<ThreadSpec>,
    /// 0 fresh resource, 1 existing resource touched in the same bucket, 2 existing resource whose
    /// current ring slot still holds an old bucket (the first writers race with the slot's roll-over), 3 the same with the
    /// clock standing exactly on the bucket boundary exactly one ring lap (10 s) after that old bucket began, 4 one lap
    /// later inside the bucket
    pub existing_resource: u8,
    /// a pseudo thread that moves the clock into the next bucket when it is scheduled
    pub clock_step: bool,
    pub schedule: Vec<(u32, u8)>,
    /// every exit is preceded by a clock advance of this many ms (0 = the clock stands still), so response times are not all 0
    #[serde(default)]
    pub exit_step_ms: u64,
}

pub fn decode(u: &mut Bytes) -> Case {
    let n = 2 + u.choice(2);
    let threads = (0..n)
        .map(|_| ThreadSpec {
            inbound: u.bool(),
            pairs: (0..1 + u.choice(2)).map(|_| (1 + u.choice(3) as u32, u.choice(4) != 3)).collect(),
        })
        .collect();
    let existing_resource = [0u8, 0, 1, 2][u.choice(4)];
    let clock_step = u.choice(4) == 3;
    let schedule = decode_schedule(u, 5, 120);
    // added later (from the tail): the stale slot exactly one ring lap old
    let existing_resource = if existing_resource == 2 { [2u8, 3, 4][u.tail_choice(3)] } else { existing_resource };
    let exit_step_ms = [0u64, 1, 3, 2][u.tail_choice(4)];
    Case { threads, existing_resource, clock_step, schedule, exit_step_ms }
}

struct Obs {
    node_ptrs: Vec<usize>,
    open: Vec<EntryStrongPtr>,
    passed_tokens: u64,
    completed_tokens: u64,
    inbound_passed: u64,
    inbound_completed: u64,
    blocked: u64,
    /// bounds of the response-time total: an entry's response time is at least (clock just before exit - clock just
    /// after build) and at most (clock just after exit - clock just before build); other threads may move the clock in between
    rt_lower: u64,
    rt_upper: u64,
}

pub struct Outcome {
    pub info: sched::RunInfo,
    pub nontrivial: bool,
}

/// run one execution of the scenario under `schedule`; Err((clause, detail)) on a violated clause
pub fn execute(case: &Case, schedule: &[(u32, u8)], bytes_hex: &str) -> Result<Outcome, (String, String)> {
    warm_up();
    util::reset_all();
    let t0 = clock::new_case_epoch() + 100; // inside a bucket
    clock::set_ms(t0);
    let res = util::fresh_name("c14");
    let mut pre = 0u64;
    if case.existing_resource > 0 {
        let e = build(Req::new(&res, 1)).map_err(|m| ("setup-blocked".to_string(), m))?;
        e.exit();
        match case.existing_resource {
            2 => clock::set_ms(t0 + 20_000),
            3 => clock::set_ms(t0 / 500 * 500 + 10_000),
            4 => clock::set_ms(t0 + 10_000),
            _ => pre = 1,
        }
    }
    let rollover_race = case.clock_step || case.existing_resource >= 2;
    let t0 = clock::now_ms();
    let inbound = stat::inbound_node();
    let inb_conc0 = inbound.current_concurrency();
    let obs = Arc::new(Mutex::new(Obs { node_ptrs: vec![], open: vec![], passed_tokens: 0, completed_tokens: 0, inbound_passed: 0, inbound_completed: 0, blocked: 0, rt_lower: 0, rt_upper: 0 }));
    let mut bodies: Vec<sched::Body> = Vec::new();
    for t in &case.threads {
        let t = t.clone();
        let res = res.clone();
        let obs = obs.clone();
        let exit_step = case.exit_step_ms;
        bodies.push(Box::new(move || {
            for (batch, do_exit) in &t.pairs {
                let mut req = Req::new(&res, *batch);
                req.inbound = t.inbound;
                let tb0 = clock::now_ms();
                match build(req) {
                    Ok(e) => {
                        let tb1 = clock::now_ms();
                        let ptr = e.context().read().unwrap().stat_node().map(|n| Arc::as_ptr(&n) as *const () as usize).unwrap_or(0);
                        {
                            let mut o = obs.lock().unwrap();
                            o.node_ptrs.push(ptr);
                            o.passed_tokens += *batch as u64;
                            if t.inbound {
                                o.inbound_passed += *batch as u64;
                            }
                        }
                        if *do_exit {
                            clock::advance_ms(exit_step);
                            let te0 = clock::now_ms();
                            e.exit();
                            let te1 = clock::now_ms();
                            let mut o = obs.lock().unwrap();
                            o.rt_lower += te0.saturating_sub(tb1);
                            o.rt_upper += te1 - tb0;
                            o.completed_tokens += *batch as u64;
                            if t.inbound {
                                o.inbound_completed += *batch as u64;
                            }
                        } else {
                            obs.lock().unwrap().open.push(e);
                        }
                    }
                    Err(_) => obs.lock().unwrap().blocked += 1,
                }
            }
        }));
    }
    if case.clock_step {
        bodies.push(Box::new(move || {
            // one yield so that the step can land between any two operations of the others
            verif_std::thread::yield_now();
            clock::set_ms((t0 / 500 + 1) * 500 + 3);
        }));
    }
    ctx::set(ctx::FatalCtx { property: "C14", bytes_hex: bytes_hex.to_string(), decoded: serde_json::to_value(case).unwrap(), key_prefix: "C14".into(), schedule: schedule.to_vec() });
    let info = sched::run(bodies, schedule, 200_000, ctx::on_fatal);
    if let Some((tid, msg)) = info.panics.first() {
        return Err(("panic".into(), format!("thread {} panicked: {}", tid, msg)));
    }
    let mut o = obs.lock().unwrap();
    if o.blocked > 0 {
        return Err(("blocked-without-rules".into(), format!("{} entries blocked although no rule is loaded", o.blocked)));
    }
    let node = stat::get_resource_node(&res).ok_or(("node-missing".to_string(), "no node for the resource after the run".to_string()))?;
    let node_ptr = Arc::as_ptr(&node) as *const () as usize;
    if o.node_ptrs.iter().any(|p| *p != node_ptr) {
        return Err((
            "two-nodes-for-one-resource".into(),
            format!("entries were accounted on nodes {:x?}, the registered node is {:x} (schedule {:?})", o.node_ptrs, node_ptr, schedule),
        ));
    }
    let open_n = o.open.len() as u32;
    if node.current_concurrency() != open_n {
        return Err(("in-flight-mismatch".into(), format!("in-flight {} but {} entries are un-exited (schedule {:?})", node.current_concurrency(), open_n, schedule)));
    }
    let inb_open = o.open.len() as u32; // upper bound, refined below
    let _ = inb_open;
    let long = node.generate_read_stat(20, 10_000).map_err(|e| ("read-stat".to_string(), e.to_string()))?;
    let pass = long.sum(MetricEvent::Pass);
    let comp = long.sum(MetricEvent::Complete);
    let (pass, comp) = (pass - pre.min(pass), comp - pre.min(comp));
    let rt = long.sum(MetricEvent::Rt);
    if rt > o.rt_upper || ((!rollover_race || info.effective_preemptions == 0) && rt < o.rt_lower) {
        return Err(("rt-total-mismatch".into(), format!("node response-time total {} ms, the entries' response times add up to between {} and {} ms (schedule {:?})", rt, o.rt_lower, o.rt_upper, schedule)));
    }
    // events may be lost only if they RACED with a roll-over: when no preemption switched threads the operations of the
    // threads did not overlap, and the totals are exact whatever the slot held before
    if !rollover_race || info.effective_preemptions == 0 {
        if pass != o.passed_tokens || comp != o.completed_tokens {
            return Err(("totals-mismatch".into(), format!("node totals pass {} complete {} but the threads passed {} and completed {} tokens (within one bucket, or without any two operations overlapping) (schedule {:?})", pass, comp, o.passed_tokens, o.completed_tokens, schedule)));
        }
    } else if pass > o.passed_tokens || comp > o.completed_tokens {
        return Err(("totals-exceed-recorded".into(), format!("node totals pass {} complete {} exceed what was recorded ({} / {}) (schedule {:?})", pass, comp, o.passed_tokens, o.completed_tokens, schedule)));
    }
    // inbound mirror (the inbound node is shared: compare in-flight deltas only)
    let inb_unexited = case
        .threads
        .iter()
        .filter(|t| t.inbound)
        .map(|t| t.pairs.iter().filter(|(_, e)| !*e).count() as u32)
        .sum::<u32>();
    if inbound.current_concurrency() - inb_conc0 != inb_unexited {
        return Err(("inbound-in-flight-mismatch".into(), format!("inbound in-flight grew by {} but {} inbound entries are un-exited", inbound.current_concurrency() - inb_conc0, inb_unexited)));
    }
    for e in o.open.drain(..) {
        e.exit();
    }
    let nontrivial = info.effective_preemptions > 0;
    Ok(Outcome { info, nontrivial })
}

impl Property for C14 {
    fn id(&self) -> &'static str {
        "C14"
    }
    fn budget(&self, tier: Tier) -> Budget {
        match tier {
            Tier::Quick => Budget { cases: 400, shards: 16, min_len: 12, max_len: 48 },
            Tier::Thorough => Budget { cases: 12_000, shards: 16, min_len: 12, max_len: 48 },
        }
    }
    fn dirty_on_fail(&self) -> bool {
        true
    }
    fn rule(&self) -> String {
        "bytes -> 2-3 threads x 1-2 build/exit pairs (batch 1..3, some entries left un-exited) on one fresh (or already existing) resource, inbound or outbound, clock fixed inside a bucket (optionally advanced by 1-3 ms before every exit, so that response times are not all 0) or moved into the next bucket by a pseudo thread, and a schedule of up to 5 preemptions (global schedule point, choice among the other runnable threads) for the cooperative scheduler that owns every std::sync operation of sentinel-core; plus (coverage.extra) exhaustive enumeration of all schedules with <= k preemptions (k = 2 quick, 3 thorough) for the 2-thread fresh-resource scenario; oracle after join: every entry's stat node is the registered node (Arc::ptr_eq), in-flight = un-exited entries, pass / complete totals equal the sums (and the response-time total lies between the bounds the threads observed) when the clock is fixed or when no preemption made operations overlap (also into a slot that holds a bucket 20 s old, exactly one ring lap old on the bucket boundary, or one lap old) and never exceed them across a roll-over, inbound in-flight delta = un-exited inbound entries; non-trivial = at least one preemption of the schedule actually switched threads; distinct = distinct (scenario, schedule)".into()
    }
    fn assumptions(&self) -> Vec<String> {
        vec![
            "hook: sentinel-core compiled against verif_std (nightly, --cfg sentinel_verif_sched); interleavings at the granularity of std sync operations, sequentially consistent".into(),
            "code of other crates (lazy_static, lru) is atomic with respect to the scheduler; all lazy statics are forced before the scheduler is installed".into(),
            "std RwLock writer preference is modelled as: a new read request waits while the lock is held and a writer is parked on it (so a recursive read behind a parked writer is a deadlock); once the lock is free readers and writers race".into(),
        ]
    }
    fn describe(&self, bytes: &[u8]) -> Option<serde_json::Value> {
        serde_json::to_value(decode(&mut Bytes::new(bytes))).ok()
    }
    fn run_decoded(&self, decoded: &serde_json::Value, cfg: &RunCfg) -> Option<Verdict> {
        let case: Case = serde_json::from_value(decoded.clone()).ok()?;
        Some(self.run_case(&case, "", cfg))
    }
    fn run(&self, bytes: &[u8], cfg: &RunCfg) -> Verdict {
        let case = decode(&mut Bytes::new(bytes));
        self.run_case(&case, &util::hex(bytes), cfg)
    }
    fn extra(&self, tier: Tier) -> Option<Result<(u64, serde_json::Value), Failure>> {
        self.extra_impl(tier)
    }
}

impl C14 {
    fn run_case(&self, case: &Case, hex: &str, cfg: &RunCfg) -> Verdict {
        let case = case.clone();
        match execute(&case, &case.schedule, hex) {
            Err((clause, detail)) => Verdict::Fail(Failure { clause: clause.clone(), key: format!("C14|{}", clause), detail, decoded: serde_json::to_value(&case).unwrap() }),
            Ok(o) => {
                let mut classes = vec![["fresh-resource", "existing-resource", "existing-resource-stale-slot", "existing-resource-slot-exactly-one-lap-old-on-boundary", "existing-resource-slot-one-lap-old"][case.existing_resource as usize]];
                if case.clock_step { classes.push("clock-step"); }
                if o.info.preempted_holding_lock > 0 { classes.push("preempted-while-holding-a-lock"); }
                Verdict::Pass(CaseReport {
                    nontrivial: o.nontrivial,
                    classes,
                    digest: digest_of(&case),
                    decoded: if cfg.want_decoded { serde_json::to_value(&case).ok() } else { None },
                    known_hits: vec![],
                    counters: vec![("schedule_points", o.info.points as u64), ("effective_preemptions", o.info.effective_preemptions as u64)],
                })
            }
        }
    }
    fn extra_impl(&self, tier: Tier) -> Option<Result<(u64, serde_json::Value), Failure>> {
        // exhaustive: two threads, one build/exit pair each, fresh resource, fixed clock
        let case = Case {
            threads: vec![ThreadSpec { inbound: false, pairs: vec![(1, true)] }, ThreadSpec { inbound: true, pairs: vec![(2, true)] }],
            existing_resource: 0,
            clock_step: false,
            schedule: vec![],
            exit_step_ms: 2,
        };
        let k = if tier == Tier::Quick { 2 } else { 3 };
        let max_runs = if tier == Tier::Quick { 40_000 } else { 2_000_000 };
        let mut points = 0u32;
        let r = sched::enumerate_bounded(k, max_runs, |s| {
            let mut c = case.clone();
            c.schedule = s.to_vec();
            match execute(&c, s, "") {
                Ok(o) => {
                    points = points.max(o.info.points);
                    Ok(o.info)
                }
                Err((clause, detail)) => Err(Failure { clause: clause.clone(), key: format!("C14|{}", clause), detail, decoded: serde_json::to_value(&c).unwrap() }),
            }
        });
        match r {
            Err(f) => Some(Err(f)),
            Ok((runs, complete)) => Some(Ok((runs, serde_json::json!({"exhaustive_subdomain": format!("all schedules with <= {} preemptions of: 2 threads x 1 build/exit on a fresh resource", k), "executions": runs, "space_exhausted": complete, "schedule_points_per_execution": points})))),
        }
    }
}
