//! C12 — valid rules are enforceable without panics; invalid input never poisons Sentinel.
use super::common::*;
use crate::engine::*;
use crate::util::{self, clock};
use sentinel_core::base::SentinelRule;
use sentinel_core::{circuitbreaker as cb, flow, hotspot, isolation, system, system_metric};
use serde::Serialize;
use std::collections::HashMap;
use std::sync::Arc;

pub struct C12;

#[derive(Debug, Clone, Serialize)]
pub struct Traffic {
    pub dt: u64,
    pub batch: u32,
    /// 0 none, 1 empty list, 2 one value, 3 four values
    pub args: u8,
    /// 0 none, 1 empty map, 2 with key k, 3 without key k
    pub att: u8,
    pub inbound: bool,
    pub with_error: bool,
}

#[derive(Debug, Clone, Serialize)]
pub struct Case {
    /// 0 flow, 1 hotspot, 2 circuit breaker, 3 isolation, 4 system
    pub family: u8,
    /// raw choices for the family's fields (interpreted by `make_*`)
    pub f: Vec<u8>,
    pub empty_resource: bool,
    /// 0 load_rules, 1 load_rules_of_resource, 2 append_rule
    pub entry_point: u8,
    pub reload_entry_point: u8,
    pub traffic: Vec<Traffic>,
    /// number of entries admitted on the resource before the rule is loaded (they exit between the two traffic rounds)
    #[serde(default)]
    pub early_entries: u8,
}

pub fn decode(u: &mut Bytes) -> Case {
    let family = u.choice(5) as u8;
    let f: Vec<u8> = (0..14).map(|_| u.u8()).collect();
    let empty_resource = u.choice(12) == 11;
    let entry_point = u.choice(3) as u8;
    let reload_entry_point = u.choice(3) as u8;
    let n = 1 + u.choice(4);
    let traffic = (0..n)
        .map(|_| Traffic {
            dt: [0u64, 1, 500, 1000, 11_000, 3_600_000][u.choice(6)],
            batch: [1u32, 0, 2, 7, 1_000_000][u.choice(5)],
            args: u.choice(4) as u8,
            att: u.choice(4) as u8,
            inbound: u.bool(),
            with_error: u.choice(4) == 3,
        })
        .collect();
    let early_entries = [0u8, 0, 1, 2][u.tail_choice(4)];
    Case { family, f, empty_resource, entry_point, reload_entry_point, traffic, early_entries }
}

fn pick<T: Copy>(b: u8, xs: &[T]) -> T {
    xs[(b as usize * xs.len()) >> 8]
}

fn make_flow(c: &Case, res: &str, seen: &str) -> flow::Rule {
    let f = &c.f;
    let rel = pick(f[2], &[0u8, 1, 2]);
    let total = system_metric::get_total_memory_size();
    let mem = pick(f[9], &[0u8, 1, 2, 3]);
    let (low_thr, high_thr, low_wm, high_wm) = match mem {
        0 => (1000u64, 100u64, 1024u64, 2048u64.min(total)),
        1 => (0, 0, 0, 0),
        2 => (100, 1000, 1024, 2048), // thresholds reversed
        _ => (1000, 100, 2048, 1024), // water marks reversed
    };
    flow::Rule {
        resource: res.into(),
        ref_resource: match rel {
            1 => seen.to_string(),
            2 => "c12-never-seen-resource".into(),
            _ => pick(f[10], &["", "", "x"]).to_string(),
        },
        calculate_strategy: pick(f[0], &[
            flow::CalculateStrategy::Direct,
            flow::CalculateStrategy::WarmUp,
            flow::CalculateStrategy::MemoryAdaptive,
            flow::CalculateStrategy::Custom(7),
        ]),
        control_strategy: pick(f[1], &[
            flow::ControlStrategy::Reject,
            flow::ControlStrategy::Throttling,
            flow::ControlStrategy::Custom(7),
        ]),
        relation_strategy: if rel == 0 { flow::RelationStrategy::Current } else { flow::RelationStrategy::Associated },
        threshold: pick(f[3], &[1.0, 0.0, 0.5, 2.0, 1e6, -1.0, f64::NAN, f64::INFINITY]),
        warm_up_period_sec: pick(f[4], &[1u32, 0, 10, 600]),
        warm_up_cold_factor: pick(f[5], &[0u32, 1, 2, 3, 1000]),
        max_queueing_time_ms: pick(f[6], &[0u32, 10, 600_000]),
        stat_interval_ms: pick(f[7], &[0u32, 1, 7, 1000, 2000, 600_000, 700_000]),
        low_mem_usage_threshold: low_thr,
        high_mem_usage_threshold: high_thr,
        mem_low_water_mark: low_wm,
        mem_high_water_mark: high_wm,
        ..Default::default()
    }
}

fn make_hot(c: &Case, res: &str) -> hotspot::Rule {
    let f = &c.f;
    let mut items = HashMap::new();
    match pick(f[10], &[0u8, 1, 2]) {
        1 => {
            items.insert("a".to_string(), 0u64);
        }
        2 => {
            items.insert("a".to_string(), 5u64);
            items.insert("b".to_string(), 1_000_000u64);
        }
        _ => {}
    }
    hotspot::Rule {
        resource: res.into(),
        metric_type: pick(f[0], &[hotspot::MetricType::QPS, hotspot::MetricType::Concurrency]),
        control_strategy: pick(f[1], &[
            hotspot::ControlStrategy::Reject,
            hotspot::ControlStrategy::Throttling,
            hotspot::ControlStrategy::Custom(7),
        ]),
        param_index: pick(f[2], &[0isize, 1, 2, 3, -1, -2, -3]),
        param_key: pick(f[3], &["", "", "k", " k "]).to_string(),
        threshold: pick(f[4], &[1u64, 0, 2, 1_000_000]),
        max_queueing_time_ms: pick(f[5], &[0u64, 10, 600_000]),
        burst_count: pick(f[6], &[0u64, 1, 1_000_000]),
        duration_in_sec: pick(f[7], &[1u64, 0, 3, 600]),
        params_max_capacity: pick(f[8], &[0usize, 1, 2, 20_000]),
        specific_items: items,
        ..Default::default()
    }
}

fn make_cb(c: &Case, res: &str) -> cb::Rule {
    let f = &c.f;
    cb::Rule {
        resource: res.into(),
        strategy: pick(f[0], &[
            cb::BreakerStrategy::ErrorCount,
            cb::BreakerStrategy::ErrorRatio,
            cb::BreakerStrategy::SlowRequestRatio,
            cb::BreakerStrategy::Custom(7),
        ]),
        retry_timeout_ms: pick(f[1], &[1000u32, 0, 1, 600_000]),
        min_request_amount: pick(f[2], &[0u64, 1, 1_000_000]),
        stat_interval_ms: pick(f[3], &[1000u32, 0, 1, 7, 600_000]),
        stat_sliding_window_bucket_count: pick(f[4], &[0u32, 1, 2, 3, 7, 1000]),
        max_allowed_rt_ms: pick(f[5], &[0u64, 10, 600_000]),
        threshold: pick(f[6], &[1.0, 0.0, 0.5, 1.5, 5.0, 1e6, -1.0, f64::NAN]),
        ..Default::default()
    }
}

fn make_iso(c: &Case, res: &str) -> isolation::Rule {
    isolation::Rule { resource: res.into(), threshold: pick(c.f[0], &[1u32, 0, 2, 1_000_000]), ..Default::default() }
}

fn make_sys(c: &Case) -> system::Rule {
    let f = &c.f;
    system::Rule {
        metric_type: pick(f[0], &[
            system::MetricType::Concurrency,
            system::MetricType::InboundQPS,
            system::MetricType::AvgRT,
            system::MetricType::Load,
            system::MetricType::CpuUsage,
        ]),
        strategy: pick(f[1], &[system::AdaptiveStrategy::NoAdaptive, system::AdaptiveStrategy::BBR]),
        threshold: pick(f[2], &[1.0, 0.0, 0.5, 100.0, 1e6, -1.0, f64::NAN]),
        ..Default::default()
    }
}

struct FmtLogger;
impl log::Log for FmtLogger {
    fn enabled(&self, _m: &log::Metadata) -> bool {
        true
    }
    fn log(&self, record: &log::Record) {
        // format every record, as any real log sink would
        let s = format!("{}", record.args());
        std::hint::black_box(s);
    }
    fn flush(&self) {}
}
static LOGGER: FmtLogger = FmtLogger;

fn intern(s: String) -> &'static str {
    use std::sync::Mutex;
    static TABLE: Mutex<Option<HashMap<String, &'static str>>> = Mutex::new(None);
    let mut t = TABLE.lock().unwrap();
    let m = t.get_or_insert_with(HashMap::new);
    if let Some(v) = m.get(&s) {
        return v;
    }
    let leaked: &'static str = Box::leak(s.clone().into_boxed_str());
    m.insert(s, leaked);
    leaked
}

impl Property for C12 {
    fn id(&self) -> &'static str {
        "C12"
    }
    fn budget(&self, tier: Tier) -> Budget {
        match tier {
            Tier::Quick => Budget { cases: 2500, shards: 16, min_len: 24, max_len: 64 },
            Tier::Thorough => Budget { cases: 80_000, shards: 16, min_len: 24, max_len: 64 },
        }
    }
    fn dirty_on_fail(&self) -> bool {
        true
    }
    fn setup(&self) {
        let _ = log::set_logger(&LOGGER);
        log::set_max_level(log::LevelFilter::Trace);
    }
    fn rule(&self) -> String {
        "in half of the cases 1-2 entries are admitted before the rule is loaded and exit between the two traffic rounds; bytes -> family, one value per rule field from a menu holding every enum variant (incl. Associated with a seen / never-seen ref_resource, MemoryAdaptive, Custom(n) without generator) and boundary numbers inside the documented sane range plus the invalid side (negative, NaN, infinity, zero interval/duration/timeout, empty resource name), loading entry point (load_rules / load_rules_of_resource / append_rule), 1-4 entries (batch in {0,1,2,7,10^6}, no / empty / short / long args, attachments with / without the key, inbound / outbound, exit with / without error, clock steps up to 1 h), reload of an equal rule through a second entry point, clear; a log sink that formats every record is installed; oracle: no call panics (catch_unwind) and afterwards a health probe of the same manager on an unrelated resource (get, load, build, exit, clear) still works; non-trivial = every case (each is a distinct point of the cross product); classes = (family, validity, entry point) and the enum tuple; distinct = distinct (rule configuration, entry point, reload entry point) triples".into()
    }
    fn assumptions(&self) -> Vec<String> {
        vec![
            "virtual clock incl. virtual sleep, so throttling waits cost no wall time; a hang is caught by the driver's watchdog and reported as inconclusive".into(),
            "a `log` sink that formats every record is installed (log arguments are only evaluated when a logger is enabled, as in production)".into(),
            "panics are keyed by source location; the first panic ends the shard (the manager may be poisoned) and is shrunk in fresh child processes".into(),
        ]
    }
    fn describe(&self, bytes: &[u8]) -> Option<serde_json::Value> {
        serde_json::to_value(decode(&mut Bytes::new(bytes))).ok()
    }
    fn run(&self, bytes: &[u8], cfg: &RunCfg) -> Verdict {
        let mut u = Bytes::new(bytes);
        let case = decode(&mut u);
        run_case(&case, cfg)
    }
}

fn health(family: u8, other: &String) -> Result<(), String> {
    // a simple valid rule on an unrelated resource must still load, be enforced and clear
    match family {
        0 => {
            flow::get_rules();
            flow::load_rules_of_resource(other, vec![Arc::new(flow::Rule { resource: other.clone(), threshold: 1.0, ..Default::default() })]).map_err(|e| e.to_string())?;
            if flow::get_rules_of_resource(other).len() != 1 {
                return Err("flow manager does not report a freshly loaded rule".into());
            }
        }
        1 => {
            hotspot::get_rules();
            hotspot::load_rules_of_resource(other, vec![Arc::new(hotspot::Rule { resource: other.clone(), threshold: 1, metric_type: hotspot::MetricType::Concurrency, ..Default::default() })]).map_err(|e| e.to_string())?;
            if hotspot::get_rules_of_resource(other).len() != 1 {
                return Err("hotspot manager does not report a freshly loaded rule".into());
            }
        }
        2 => {
            cb::get_rules();
            cb::load_rules_of_resource(other, vec![Arc::new(cb::Rule { resource: other.clone(), threshold: 1.0, retry_timeout_ms: 10, stat_interval_ms: 1000, strategy: cb::BreakerStrategy::ErrorCount, ..Default::default() })]).map_err(|e| e.to_string())?;
            if cb::get_rules_of_resource(other).len() != 1 {
                return Err("circuit breaker manager does not report a freshly loaded rule".into());
            }
        }
        3 => {
            isolation::get_rules();
            isolation::load_rules_of_resource(other, vec![Arc::new(isolation::Rule { resource: other.clone(), threshold: 1, ..Default::default() })]).map_err(|e| e.to_string())?;
            if isolation::get_rules_of_resource(other).len() != 1 {
                return Err("isolation manager does not report a freshly loaded rule".into());
            }
        }
        _ => {
            system::get_rules();
            system::clear_rules();
            system::load_rules(vec![Arc::new(system::Rule { metric_type: system::MetricType::Concurrency, threshold: 1e9, ..Default::default() })]);
            if system::get_rules().len() != 1 {
                return Err("system manager does not report a freshly loaded rule".into());
            }
        }
    }
    let e = build(Req::new(other, 1)).map_err(|m| format!("health entry blocked: {}", m.chars().take(120).collect::<String>()))?;
    e.exit();
    match family {
        0 => flow::clear_rules_of_resource(other),
        1 => hotspot::clear_rules_of_resource(other),
        2 => cb::clear_rules_of_resource(other),
        3 => isolation::clear_rules_of_resource(other),
        _ => system::clear_rules(),
    }
    Ok(())
}

pub fn run_case(case: &Case, cfg: &RunCfg) -> Verdict {
    util::reset_all();
    clock::new_case_epoch();
    let res = if case.empty_resource { String::new() } else { util::fresh_name("c12") };
    let seen = util::fresh_name("c12seen");
    let other = util::fresh_name("c12other");
    // make `seen` a resource with a node
    if let Ok(e) = build(Req::new(&seen, 1)) {
        e.exit();
    }
    let fam = case.family;
    let valid: bool;
    let enum_class: String;
    let rule_sig: String;
    // one closure per loading round so that the reload uses a fresh, equal rule (new id)
    let load = |ep: u8| -> bool {
        match fam {
            0 => {
                let r = Arc::new(make_flow(case, &res, &seen));
                match ep {
                    0 => {
                        flow::load_rules(vec![r]);
                    }
                    1 => {
                        let _ = flow::load_rules_of_resource(&res, vec![r]);
                    }
                    _ => {
                        flow::append_rule(r);
                    }
                }
            }
            1 => {
                let r = Arc::new(make_hot(case, &res));
                match ep {
                    0 => {
                        hotspot::load_rules(vec![r]);
                    }
                    1 => {
                        let _ = hotspot::load_rules_of_resource(&res, vec![r]);
                    }
                    _ => {
                        hotspot::append_rule(r);
                    }
                }
            }
            2 => {
                let r = Arc::new(make_cb(case, &res));
                match ep {
                    0 => {
                        cb::load_rules(vec![r]);
                    }
                    1 => {
                        let _ = cb::load_rules_of_resource(&res, vec![r]);
                    }
                    _ => {
                        cb::append_rule(r);
                    }
                }
            }
            3 => {
                let r = Arc::new(make_iso(case, &res));
                match ep {
                    0 => isolation::load_rules(vec![r]),
                    1 => {
                        let _ = isolation::load_rules_of_resource(&res, vec![r]);
                    }
                    _ => {
                        isolation::append_rule(r);
                    }
                }
            }
            _ => {
                let r = Arc::new(make_sys(case));
                match ep {
                    0 | 1 => system::load_rules(vec![r]),
                    _ => {
                        system::append_rule(r);
                    }
                }
            }
        }
        true
    };
    match fam {
        0 => {
            let mut r = make_flow(case, &res, &seen);
            valid = r.is_valid().is_ok();
            r.id = String::new();
            r.resource = if case.empty_resource { String::new() } else { "r".into() };
            rule_sig = format!("{:?}", r);
            enum_class = format!("flow/{:?}/{:?}/{:?}{}", r.calculate_strategy, r.control_strategy, r.relation_strategy, if r.ref_resource == "c12-never-seen-resource" { "(unseen)" } else { "" });
        }
        1 => {
            let mut r = make_hot(case, &res);
            valid = r.is_valid().is_ok();
            r.id = String::new();
            r.resource = if case.empty_resource { String::new() } else { "r".into() };
            rule_sig = format!("{:?}", r);
            enum_class = format!("hotspot/{:?}/{:?}", r.metric_type, r.control_strategy);
        }
        2 => {
            let mut r = make_cb(case, &res);
            valid = r.is_valid().is_ok();
            r.id = String::new();
            r.resource = if case.empty_resource { String::new() } else { "r".into() };
            rule_sig = format!("{:?}", r);
            enum_class = format!("breaker/{:?}", r.strategy);
        }
        3 => {
            let mut r = make_iso(case, &res);
            valid = r.is_valid().is_ok();
            r.id = String::new();
            r.resource = if case.empty_resource { String::new() } else { "r".into() };
            rule_sig = format!("{:?}", r);
            enum_class = "isolation/Concurrency".to_string();
        }
        _ => {
            let mut r = make_sys(case);
            valid = r.is_valid().is_ok();
            r.id = String::new();
            rule_sig = format!("{:?}", r);
            enum_class = format!("system/{:?}/{:?}", r.metric_type, r.strategy);
        }
    }
    // entries that were admitted BEFORE the rule is loaded (a third of the cases): they are still open while the rule is
    // loaded and enforced, and they exit between the two traffic rounds
    let mut early = OpenEntries::new();
    if case.early_entries > 0 && !case.empty_resource {
        for _ in 0..case.early_entries {
            let mut req = Req::new(&res, 1);
            req.args = Some(vec!["a".to_string(), "b".to_string(), "c".to_string(), "a".to_string()]);
            req.attachments = Some([("k".to_string(), "a".to_string())].into_iter().collect());
            if let Ok(e) = build(req) {
                early.push(e);
            }
        }
    }
    load(case.entry_point);
    let mut open = OpenEntries::new();
    let run_traffic = |open: &mut OpenEntries| {
        for t in &case.traffic {
            clock::advance_ms(t.dt);
            let mut req = Req::new(&res, t.batch);
            req.inbound = t.inbound;
            req.args = match t.args {
                0 => None,
                1 => Some(vec![]),
                2 => Some(vec!["a".to_string()]),
                _ => Some(vec!["a".to_string(), "b".to_string(), "c".to_string(), "a".to_string()]),
            };
            req.attachments = match t.att {
                0 => None,
                1 => Some(HashMap::new()),
                2 => Some([("k".to_string(), "a".to_string())].into_iter().collect()),
                _ => Some([("other".to_string(), "a".to_string())].into_iter().collect()),
            };
            if let Ok(e) = build(req) {
                if t.with_error {
                    e.set_err(sentinel_core::Error::msg("biz"));
                }
                let idx = open.push(e);
                if t.batch % 2 == 1 {
                    open.exit(idx);
                }
            }
        }
    };
    run_traffic(&mut open);
    drop(early);
    // reload an equal rule (fresh id) through another entry point, then traffic again
    load(case.reload_entry_point);
    run_traffic(&mut open);
    drop(open);
    // every manager must still answer and accept updates
    if let Err(e) = health(fam, &other) {
        return Verdict::Fail(Failure {
            clause: "manager-unusable".into(),
            key: format!("C12|manager-unusable|{}", ["flow", "hotspot", "breaker", "isolation", "system"][fam as usize]),
            detail: e,
            decoded: serde_json::to_value(case).unwrap(),
        });
    }
    match fam {
        0 => flow::clear_rules(),
        1 => hotspot::clear_rules(),
        2 => cb::clear_rules(),
        3 => isolation::clear_rules(),
        _ => system::clear_rules(),
    }
    let ep = ["load_rules", "load_rules_of_resource", "append_rule"][case.entry_point as usize];
    let class1 = intern(format!("{}|{}|{}", ["flow", "hotspot", "breaker", "isolation", "system"][fam as usize], if valid { "valid" } else { "invalid" }, ep));
    let class2 = intern(enum_class);
    Verdict::Pass(CaseReport {
        nontrivial: true,
        classes: vec![class1, class2],
        // distinctness is counted on the rule configuration x entry points, not on the traffic script
        digest: digest_of(&(rule_sig, case.entry_point, case.reload_entry_point)),
        decoded: if cfg.want_decoded { serde_json::to_value(case).ok() } else { None },
        known_hits: vec![],
        counters: vec![(if valid { "valid_rule_cases" } else { "invalid_rule_cases" }, 1)],
    })
}
