//! Helpers shared by the schedule-controlled properties (C14, C15, C16).
use crate::engine::Bytes;
use crate::props::common::*;
use crate::util::{self, clock};
use sentinel_core::{circuitbreaker as cb, flow, hotspot, isolation, system};
use std::sync::Arc;

/// Force every lazy static of sentinel-core before a scheduler is installed: `lazy_static`'s own
/// `Once` lives in another crate and is not a schedule point.
pub fn warm_up() {
    use std::sync::Once;
    static W: Once = Once::new();
    W.call_once(|| {
        clock::init();
        let r = "sched-warmup".to_string();
        flow::load_rules(vec![Arc::new(flow::Rule { resource: r.clone(), threshold: 100.0, ..Default::default() })]);
        flow::append_rule(Arc::new(flow::Rule { resource: r.clone(), threshold: 50.0, control_strategy: flow::ControlStrategy::Throttling, ..Default::default() }));
        isolation::load_rules(vec![Arc::new(isolation::Rule { resource: r.clone(), threshold: 100, ..Default::default() })]);
        isolation::append_rule(Arc::new(isolation::Rule { resource: r.clone(), threshold: 101, ..Default::default() }));
        hotspot::load_rules(vec![Arc::new(hotspot::Rule { resource: r.clone(), threshold: 100, metric_type: hotspot::MetricType::QPS, duration_in_sec: 1, ..Default::default() })]);
        hotspot::append_rule(Arc::new(hotspot::Rule { resource: r.clone(), threshold: 100, metric_type: hotspot::MetricType::Concurrency, ..Default::default() }));
        cb::load_rules(vec![Arc::new(cb::Rule { resource: r.clone(), threshold: 100.0, retry_timeout_ms: 1000, stat_interval_ms: 1000, strategy: cb::BreakerStrategy::ErrorCount, ..Default::default() })]);
        cb::append_rule(Arc::new(cb::Rule { resource: r.clone(), threshold: 0.9, retry_timeout_ms: 1000, stat_interval_ms: 1000, strategy: cb::BreakerStrategy::ErrorRatio, ..Default::default() }));
        system::load_rules(vec![Arc::new(system::Rule { metric_type: system::MetricType::Concurrency, threshold: 1e9, ..Default::default() })]);
        system::append_rule(Arc::new(system::Rule { metric_type: system::MetricType::InboundQPS, threshold: 1e9, ..Default::default() }));
        for inbound in [true, false] {
            let mut req = Req::new(&r, 1);
            req.inbound = inbound;
            req.args = Some(vec!["a".into()]);
            if let Ok(e) = build(req) {
                e.set_err(sentinel_core::Error::msg("x"));
                e.exit();
            }
        }
        let _ = (flow::get_rules(), isolation::get_rules(), hotspot::get_rules(), cb::get_rules(), system::get_rules());
        let _ = sentinel_core::system_metric::current_load();
        let _ = sentinel_core::system_metric::current_cpu_usage();
        let _ = sentinel_core::system_metric::current_memory_usage();
        log::logger();
        util::reset_all();
    });
}

/// a schedule = up to `max_preempt` preemptions (global point index, choice among the other runnable threads)
pub fn decode_schedule(u: &mut Bytes, max_preempt: usize, point_range: usize) -> Vec<(u32, u8)> {
    let n = u.choice(max_preempt + 1);
    let mut v: Vec<(u32, u8)> = (0..n).map(|_| (u.choice16(point_range) as u32, u.choice(3) as u8)).collect();
    v.sort();
    v.dedup_by_key(|x| x.0);
    v
}
