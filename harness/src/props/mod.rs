//! One module per property.
use crate::engine::Property;
pub mod common;
pub mod c01;

pub fn all() -> Vec<Box<dyn Property>> {
    vec![Box::new(c01::C01)]
}
