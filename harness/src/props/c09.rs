//! C09 — system protection rejects inbound traffic exactly when a system metric trips.
use super::common::*;
use crate::engine::*;
use crate::fail;
use crate::model::node::{NodeModel, COMPLETE, PASS, RT};
use crate::util::{self, clock};
use sentinel_core::base::ConcurrencyStat;
use sentinel_core::{stat, system, system_metric};
use serde::Serialize;
use std::sync::Arc;

pub struct C09;

#[derive(Debug, Clone, Serialize)]
pub struct RuleGen {
    /// 0 Load, 1 AvgRT, 2 Concurrency, 3 InboundQPS, 4 CpuUsage
    pub metric: u8,
    pub bbr: bool,
    /// threshold relative to the value about to be observed: -1 below, 0 equal, +1 above
    pub rel: i8,
}

#[derive(Debug, Clone, Serialize)]
pub enum Step {
    Build { dt: u64, res: usize, inbound: bool, batch: u32 },
    Exit { dt: u64, k: usize },
    SetRules { rules: Vec<RuleGen>, load: f64, cpu: f32 },
}

#[derive(Debug, Clone, Serialize)]
pub struct Case {
    pub phase_ms: u64,
    pub steps: Vec<Step>,
    /// entries go through the library's global slot chain instead of the recording copy of it
    pub global_chain: bool,
}

const LOADS: [f64; 6] = [0.5, 0.0, 0.25, 0.75, 1.0, 1.5];
const CPUS: [f32; 5] = [50.0, 0.0, 12.5, 99.5, 100.0];

pub fn decode(u: &mut Bytes) -> Case {
    let phase_ms = [0u64, 250, 499, 500, 999][u.choice(5)];
    let n = 6 + u.choice(50);
    let mut steps = Vec::new();
    for i in 0..n {
        let dt = match u.choice(10) {
            0 | 1 | 2 | 3 => 0,
            4 => 1,
            5 => 7,
            6 => 499,
            7 => 500,
            8 => 1000,
            _ => u.range(0, 255) * 5,
        };
        let k = u.choice(10);
        if k < 2 || i == 0 {
            let nr = 1 + u.choice(3);
            let rules = (0..nr)
                .map(|_| RuleGen { metric: u.choice(5) as u8, bbr: u.bool(), rel: [0i8, -1, 1][u.choice(3)] })
                .collect();
            steps.push(Step::SetRules { rules, load: LOADS[u.choice(6)], cpu: CPUS[u.choice(5)] });
        } else if k < 5 {
            steps.push(Step::Exit { dt, k: u.choice(8) });
        } else {
            steps.push(Step::Build { dt, res: u.choice(2), inbound: u.choice(4) != 3, batch: 1 + u.choice(3) as u32 });
        }
    }
    let global_chain = u.tail_choice(3) == 2;
    Case { phase_ms, steps, global_chain }
}

impl Property for C09 {
    fn id(&self) -> &'static str {
        "C09"
    }
    fn budget(&self, tier: Tier) -> Budget {
        match tier {
            Tier::Quick => Budget { cases: 12_000, shards: 16, min_len: 24, max_len: 300 },
            Tier::Thorough => Budget { cases: 100_000, shards: 16, min_len: 24, max_len: 300 },
        }
    }
    fn rule(&self) -> String {
        "bytes -> history of inbound/outbound builds (batch 1..3), exits and clock advances on 2 resources, with SetRules steps that load 1-3 system rules (all five metric types x NoAdaptive/BBR) whose thresholds are placed below / equal to / above the value the harness's own model says the next probe will observe, and that inject load / CPU readings; entries go through the recording copy of the global slot chain or (a third of the cases) through the library's global chain itself, where block type, rule and value are read from the error text; every build is a probe: inbound blocked <=> some rule trips (QPS, concurrency, avg RT: value >= threshold; load, CPU: value > threshold and, under BBR, in-flight > 1 and in-flight > maxCompleteQps * minRt / 1000), block is SystemFlow naming a tripping rule with its observed value; outbound never blocked; non-trivial = some probe's observed value within one unit of a threshold or the BBR clause flipping the verdict; distinct = distinct decoded cases; all 10 (type x strategy) classes counted".into()
    }
    fn assumptions(&self) -> Vec<String> {
        vec![
            "virtual clock; load/CPU readings injected through the sentinel_verif setters (values exactly representable in f32)".into(),
            "thresholds respect rule validity (load in [0,1], CPU in [0,100])".into(),
            "the inbound node is shared across cases; each case starts >= 20 s after the previous one with zero in-flight".into(),
        ]
    }
    fn run(&self, bytes: &[u8], cfg: &RunCfg) -> Verdict {
        let mut u = Bytes::new(bytes);
        let case = decode(&mut u);
        run_case(&case, cfg)
    }
}

struct OpenRec {
    idx: usize,
    inbound: bool,
    batch: u32,
    t_build: u64,
}

#[derive(Debug, Clone)]
struct ActiveRule {
    metric: u8,
    bbr: bool,
    threshold: f64,
    debug: String,
}

fn observed(metric: u8, m: &NodeModel, t: u64, load: f64, cpu: f32) -> f64 {
    match metric {
        0 => load,
        1 => {
            let c = m.sum(t, COMPLETE, 500, 1000);
            if c == 0 { 0.0 } else { m.sum(t, RT, 500, 1000) as f64 / c as f64 }
        }
        2 => m.open as f64,
        3 => m.sum(t, PASS, 500, 1000) as f64,
        _ => cpu as f64,
    }
}

fn bbr_overloaded(m: &NodeModel, t: u64) -> bool {
    let conc = m.open as f64;
    let min_rt = m.min_rt(t, 500, 1000) as f64;
    let max_complete = m.max_bucket(t, COMPLETE, 500, 1000) as f64 * 2.0;
    conc > 1.0 && conc > max_complete * min_rt / 1000.0
}

pub fn run_case(case: &Case, cfg: &RunCfg) -> Verdict {
    const ID: &str = "C09";
    util::reset_all();
    let t0 = clock::new_case_epoch() + case.phase_ms;
    clock::set_ms(t0);
    let names = [util::fresh_name("c09a"), util::fresh_name("c09b")];
    let inbound = stat::inbound_node();
    if inbound.current_concurrency() != 0 {
        fail!(ID, "inbound-baseline", "inbound-baseline", case, "inbound in-flight {} at case start", inbound.current_concurrency());
    }
    let mut m = NodeModel::default();
    let (mut load, mut cpu) = (0.0f64, 0.0f32);
    system_metric::verif_set_load(load);
    system_metric::verif_set_cpu_usage(cpu);
    let mut active: Vec<ActiveRule> = Vec::new();
    let mut open = OpenEntries::new();
    let mut recs: Vec<OpenRec> = Vec::new();
    let mut classes_hit: std::collections::BTreeSet<&'static str> = Default::default();
    let (mut near, mut bbr_flip, mut n_blocked, mut n_out) = (0u64, 0u64, 0u64, 0u64);
    const CLASS: [[&str; 2]; 5] = [
        ["Load/NoAdaptive", "Load/BBR"],
        ["AvgRT/NoAdaptive", "AvgRT/BBR"],
        ["Concurrency/NoAdaptive", "Concurrency/BBR"],
        ["InboundQPS/NoAdaptive", "InboundQPS/BBR"],
        ["CpuUsage/NoAdaptive", "CpuUsage/BBR"],
    ];

    for (si, step) in case.steps.iter().enumerate() {
        match step {
            Step::SetRules { rules, load: l, cpu: c } => {
                load = *l;
                cpu = *c;
                system_metric::verif_set_load(load);
                system_metric::verif_set_cpu_usage(cpu);
                let t = clock::now_ms();
                let mut rs = Vec::new();
                active.clear();
                for g in rules {
                    let v = observed(g.metric, &m, t, load, cpu);
                    let delta = match g.metric {
                        0 => 0.25,
                        4 => 12.5,
                        _ => 1.0,
                    };
                    let mut thr = v + g.rel as f64 * delta;
                    if thr < 0.0 {
                        thr = 0.0;
                    }
                    if g.metric == 0 && thr > 1.0 {
                        thr = 1.0;
                    }
                    if g.metric == 4 && thr > 100.0 {
                        thr = 100.0;
                    }
                    let r = Arc::new(system::Rule {
                        metric_type: [
                            system::MetricType::Load,
                            system::MetricType::AvgRT,
                            system::MetricType::Concurrency,
                            system::MetricType::InboundQPS,
                            system::MetricType::CpuUsage,
                        ][g.metric as usize],
                        threshold: thr,
                        strategy: if g.bbr { system::AdaptiveStrategy::BBR } else { system::AdaptiveStrategy::NoAdaptive },
                        ..Default::default()
                    });
                    rs.push(r);
                }
                system::load_rules(rs);
                for r in system::get_rules() {
                    let metric = match r.metric_type {
                        system::MetricType::Load => 0,
                        system::MetricType::AvgRT => 1,
                        system::MetricType::Concurrency => 2,
                        system::MetricType::InboundQPS => 3,
                        system::MetricType::CpuUsage => 4,
                    };
                    let bbr = r.strategy == system::AdaptiveStrategy::BBR;
                    classes_hit.insert(CLASS[metric as usize][bbr as usize]);
                    active.push(ActiveRule { metric, bbr, threshold: r.threshold, debug: format!("{:?}", r) });
                }
                if active.is_empty() {
                    fail!(ID, "rules-not-loaded", "rules-not-loaded", case, "step {}: valid system rules not reported after load", si);
                }
            }
            Step::Exit { dt, k } => {
                clock::advance_ms(*dt);
                let t = clock::now_ms();
                if !recs.is_empty() {
                    let r = recs.remove(*k % recs.len());
                    open.exit(r.idx);
                    if r.inbound {
                        m.complete(t, r.batch as u64, t - r.t_build);
                    }
                }
            }
            Step::Build { dt, res, inbound: inb, batch } => {
                clock::advance_ms(*dt);
                let t = clock::now_ms();
                // which rules trip, by the harness's own history
                let mut tripping: Vec<(String, f64)> = Vec::new();
                for a in &active {
                    let v = observed(a.metric, &m, t, load, cpu);
                    let trips = match a.metric {
                        1 | 2 | 3 => v >= a.threshold,
                        _ => {
                            let over = v > a.threshold;
                            let ov = bbr_overloaded(&m, t);
                            if over && a.bbr && !ov {
                                bbr_flip += 1;
                            }
                            over && (!a.bbr || ov)
                        }
                    };
                    if (v - a.threshold).abs() <= 1.0 && a.metric >= 1 && a.metric <= 3 || (v - a.threshold).abs() <= 0.25 && a.metric == 0 || (v - a.threshold).abs() <= 12.5 && a.metric == 4 {
                        near += 1;
                    }
                    if trips {
                        tripping.push((a.debug.clone(), v));
                    }
                }
                let mut req = Req::new(&names[*res], *batch);
                req.inbound = *inb;
                match build_either(req, case.global_chain) {
                    Ok(e) => {
                        if *inb && !tripping.is_empty() {
                            open.push(e);
                            fail!(ID, "admitted-while-tripped", "admitted-while-tripped", case,
                                "step {} t=+{}: inbound entry admitted although these rules trip: {:?}", si, t - t0, tripping);
                        }
                        let idx = open.push(e);
                        recs.push(OpenRec { idx, inbound: *inb, batch: *batch, t_build: t });
                        if *inb {
                            m.pass(t, *batch as u64);
                        } else {
                            n_out += 1;
                        }
                    }
                    Err((msg, recd)) => {
                        if !*inb {
                            fail!(ID, "outbound-blocked", "outbound-blocked", case, "step {}: outbound entry blocked: {}", si, msg.chars().take(200).collect::<String>());
                        }
                        if tripping.is_empty() {
                            fail!(ID, "blocked-without-trip", "blocked-without-trip", case,
                                "step {} t=+{}: inbound entry blocked although no rule trips (rules {:?}, in-flight {}, load {}, cpu {}); {}", si, t - t0, active, m.open, load, cpu, msg.chars().take(200).collect::<String>());
                        }
                        n_blocked += 1;
                        m.block(t, *batch as u64);
                        let bt = block_type_of(&msg);
                        let mut rec = recd.unwrap_or_default();
                        if case.global_chain {
                            // no recorder in the global chain: block type, rule and value are looked for in the error text
                            rec.block_type = bt.clone();
                            if let Some((d, v)) = tripping.iter().find(|(d, _)| msg.contains(d.as_str())) {
                                rec.rule_debug = Some(d.clone());
                                rec.value_debug = Some(format!("{}", v));
                            }
                        }
                        if bt != "SystemFlow" || rec.block_type != "SystemFlow" {
                            fail!(ID, "wrong-block-type", format!("wrong-block-type|{}", bt), case, "step {}: blocked as {} / {}", si, bt, rec.block_type);
                        }
                        let named = rec.rule_debug.clone().unwrap_or_default();
                        match tripping.iter().find(|(d, _)| *d == named) {
                            None => fail!(ID, "wrong-triggered-rule", "wrong-triggered-rule", case,
                                "step {}: block names {} which does not trip; tripping: {:?}", si, named, tripping),
                            Some((_, v)) => {
                                let got: Option<f64> = rec.value_debug.as_ref().and_then(|s| s.trim().parse::<f64>().ok());
                                if got.map(|g| (g - *v).abs() > 1e-9 * v.abs().max(1.0)).unwrap_or(true) {
                                    fail!(ID, "wrong-observed-value", "wrong-observed-value", case,
                                        "step {}: block carries value {:?}, the rule's observed value is {}", si, rec.value_debug, v);
                                }
                            }
                        }
                    }
                }
            }
        }
        if inbound.current_concurrency() as i64 != m.open {
            fail!(ID, "inbound-in-flight-mismatch", "inbound-in-flight-mismatch", case, "step {}: inbound in-flight {} expected {}", si, inbound.current_concurrency(), m.open);
        }
    }
    drop(open);
    system::clear_rules();
    system_metric::verif_set_load(0.0);
    system_metric::verif_set_cpu_usage(0.0);
    let mut classes: Vec<&'static str> = classes_hit.into_iter().collect();
    classes.push(if case.global_chain { "through-the-global-slot-chain" } else { "through-the-recording-chain" });
    if n_out > 0 { classes.push("outbound-probe"); }
    if bbr_flip > 0 { classes.push("bbr-clause-flips-verdict"); }
    if n_blocked > 0 { classes.push("has-block"); }
    Verdict::Pass(CaseReport {
        nontrivial: near > 0 || bbr_flip > 0,
        classes,
        digest: digest_of(case),
        decoded: if cfg.want_decoded { serde_json::to_value(case).ok() } else { None },
        known_hits: vec![],
        counters: vec![("blocked", n_blocked), ("probes_near_threshold", near), ("bbr_flips", bbr_flip)],
    })
}
