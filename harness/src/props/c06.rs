//! C06 — hotspot QPS limiting is a per-parameter token bucket with no cross-talk.
use super::common::*;
use crate::engine::*;
use crate::fail;
use crate::util::{self, clock};
use sentinel_core::hotspot;
use serde::Serialize;
use std::collections::HashMap;
use std::sync::Arc;

pub struct C06;

#[derive(Debug, Clone, Serialize)]
pub struct RuleSpec {
    pub q: u64,
    pub burst: u64,
    pub d_sec: u64,
    pub keyed: bool,
    /// per-value override of q (index = value index)
    pub overrides: Vec<Option<u64>>,
    /// params_max_capacity: 0 = default, otherwise >= the number of distinct values (the property's "within capacity")
    pub capacity: usize,
}

#[derive(Debug, Clone, Serialize)]
pub struct Case {
    pub phase_ms: u64,
    pub rule: RuleSpec,
    pub nvalues: usize,
    /// (gap before the request in ms, value index, batch)
    pub reqs: Vec<(u64, usize, u32)>,
    pub probe_value: usize,
}

const VALUES: [&str; 4] = ["va", "vb", "vc", "vd"];

pub fn decode(u: &mut Bytes) -> Case {
    let phase_ms = [0u64, 1, 999, 500, 137][u.choice(5)];
    let nvalues = 1 + u.choice(4);
    let q = [2u64, 0, 1, 3, 4, 5, 6][u.choice(7)];
    let burst = u.choice(5) as u64;
    let d_sec = 1 + u.choice(3) as u64;
    let keyed = u.choice(4) == 3;
    let mut overrides = Vec::new();
    for _ in 0..nvalues {
        overrides.push(if u.choice(3) == 2 { Some(u.choice(7) as u64) } else { None });
    }
    let n = 3 + u.choice(58);
    let mut reqs = Vec::new();
    let dm = d_sec * 1000;
    for _ in 0..n {
        let gap = match u.choice(12) {
            0 | 1 | 2 | 3 => 0,
            4 => 1,
            5 => dm - 1,
            6 => dm,
            7 => dm + 1,
            8 => 2 * dm + 3,
            9 => dm / 2,
            10 => u.range(0, 255) * 20,
            _ => u.range(0, 60),
        };
        reqs.push((gap, u.choice(nvalues), 1 + u.choice(4) as u32));
    }
    let probe_value = u.choice(nvalues);
    // from the tail (layout above unchanged): a capacity that the distinct values just fit into
    let capacity = [0usize, nvalues, nvalues + 1, 4, 0][u.tail_choice(5)];
    Case { phase_ms, rule: RuleSpec { q, burst, d_sec, keyed, overrides, capacity }, nvalues, reqs, probe_value }
}

fn to_rule(res: &str, r: &RuleSpec, with_overrides: bool, threshold: u64) -> hotspot::Rule {
    let mut items = HashMap::new();
    if with_overrides {
        for (i, o) in r.overrides.iter().enumerate() {
            if let Some(x) = o {
                items.insert(VALUES[i].to_string(), *x);
            }
        }
    }
    hotspot::Rule {
        resource: res.to_string(),
        metric_type: hotspot::MetricType::QPS,
        control_strategy: hotspot::ControlStrategy::Reject,
        param_index: 0,
        param_key: if r.keyed { "k".into() } else { String::new() },
        threshold,
        burst_count: r.burst,
        params_max_capacity: r.capacity,
        duration_in_sec: r.d_sec,
        specific_items: items,
        ..Default::default()
    }
}

/// Run a request list (absolute offsets from the case start) against a fresh resource carrying
/// `rule`; returns the decisions. `Err` carries a non-hotspot block.
fn run_history(t0: u64, rule: hotspot::Rule, keyed: bool, reqs: &[(u64, usize, u32)]) -> Result<Vec<bool>, String> {
    util::reset_all();
    let res = rule.resource.clone();
    clock::set_ms(t0);
    hotspot::load_rules(vec![Arc::new(rule)]);
    let mut out = Vec::new();
    for (at, v, batch) in reqs {
        clock::set_ms(t0 + at);
        let mut req = Req::new(&res, *batch);
        if keyed {
            req.attachments = Some([("k".to_string(), VALUES[*v].to_string())].into_iter().collect());
        } else {
            req.args = Some(vec![VALUES[*v].to_string()]);
        }
        match build(req) {
            Ok(e) => {
                e.exit();
                out.push(true);
            }
            Err(m) => {
                let bt = block_type_of(&m);
                if bt != "HotSpotParamFlow" {
                    return Err(format!("blocked as {} instead of HotSpotParamFlow", bt));
                }
                out.push(false);
            }
        }
    }
    Ok(out)
}

impl Property for C06 {
    fn id(&self) -> &'static str {
        "C06"
    }
    fn budget(&self, tier: Tier) -> Budget {
        match tier {
            Tier::Quick => Budget { cases: 4000, shards: 16, min_len: 24, max_len: 220 },
            Tier::Thorough => Budget { cases: 100_000, shards: 16, min_len: 24, max_len: 220 },
        }
    }
    fn fuzz_targets(&self) -> Vec<(&'static str, u64, usize)> {
        vec![("prop", 200_000, 220)]
    }
    fn rule(&self) -> String {
        "bytes -> hotspot QPS/Reject rule (q 0..6, burst 0..4, d 1..3 s, positional or keyed parameter, per-value overrides 0..6), 1-4 values, 3-60 requests (gap menu 0, 1, d-1ms, d, d+1ms, 2d+3, d/2, free; batch 1..4); clauses: (i) bound q_v+b+q_v(t-first)/d on admitted tokens per value, (ii) no rejection while a lazily refilled reference bucket (a lower bound on any conforming bucket) still holds the batch, q_v=0 and batch>q_v+b always rejected, (iii) metamorphic: the decisions of one value are unchanged when the other values' requests are deleted, (iv) metamorphic: an overridden value behaves as under threshold x without overrides, the others as under the rule without overrides; non-trivial = >= 2 values interleaved, >= 1 refill gap (> d) and >= 1 rejection; distinct = distinct decoded cases".into()
    }
    fn assumptions(&self) -> Vec<String> {
        vec![
            "virtual clock hook; params_max_capacity is the default or a value the 1-4 distinct values just fit into (number of values, +1, 4), so the distinct values always stay within capacity and no bucket may be evicted".into(),
            "an admission the reference bucket would not grant is flagged only if it breaks the bound (i)".into(),
        ]
    }
    fn run(&self, bytes: &[u8], cfg: &RunCfg) -> Verdict {
        let mut u = Bytes::new(bytes);
        let case = decode(&mut u);
        run_case(&case, cfg)
    }
}

pub fn run_case(case: &Case, cfg: &RunCfg) -> Verdict {
    const ID: &str = "C06";
    let r = &case.rule;
    // absolute offsets
    let mut at = 0u64;
    let reqs: Vec<(u64, usize, u32)> = case
        .reqs
        .iter()
        .map(|(gap, v, b)| {
            at += gap;
            (at, *v, *b)
        })
        .collect();
    let t0 = clock::new_case_epoch() + case.phase_ms;
    let res = util::fresh_name("c06");
    let full = match run_history(t0, to_rule(&res, r, true, r.q), r.keyed, &reqs) {
        Ok(d) => d,
        Err(e) => fail!(ID, "wrong-block-type", "wrong-block-type", case, "{}", e),
    };
    // (i) + (ii) per value
    let dm = r.d_sec * 1000;
    struct B {
        first: u64,
        admitted: u64,
        /// candidate reference states (tokens, time of last refill); None = no longer judged
        states: Option<Vec<(i64, u64)>>,
    }
    let mut buckets: HashMap<usize, B> = HashMap::new();
    let (mut n_rej, mut n_refill, mut n_unjudged) = (0u64, 0u64, 0u64);
    for (i, (at, v, batch)) in reqs.iter().enumerate() {
        let qv = r.overrides[*v].unwrap_or(r.q);
        let cap = qv + r.burst;
        let n = *batch as u64;
        let admitted = full[i];
        if qv == 0 || n > cap {
            if admitted {
                fail!(ID, "admitted-impossible-request", "admitted-impossible-request", case,
                    "request {} (value {}, batch {}) admitted although threshold {} burst {}", i, v, n, qv, r.burst);
            }
            n_rej += 1;
            continue;
        }
        let b = buckets.entry(*v);
        match b {
            std::collections::hash_map::Entry::Vacant(e) => {
                // first request of this value: a full bucket
                if !admitted {
                    fail!(ID, "spurious-rejection", "spurious-rejection|first", case,
                        "request {}: first request of value {} (batch {} <= q+b {}) rejected", i, v, n, cap);
                }
                e.insert(B { first: *at, admitted: n, states: Some(vec![((cap - n) as i64, *at)]) });
            }
            std::collections::hash_map::Entry::Occupied(mut e) => {
                let b = e.get_mut();
                // Reference bucket: refilled lazily once the statistic window d has passed since
                // the last refill (a gap of exactly d may or may not count as "passed": both
                // candidate states are kept). A rejection is spurious only if every candidate
                // state still holds the batch.
                let mut next: Vec<(i64, u64)> = Vec::new();
                let mut refilled = false;
                let mut max_avail = i64::MIN;
                if let Some(states) = &b.states {
                    for (tokens, last_fill) in states {
                        let gap = *at - *last_fill;
                        let opts: &[bool] = if gap > dm { &[true] } else if gap == dm { &[true, false] } else { &[false] };
                        for refill in opts {
                            let avail = if *refill { (*tokens + (gap * qv / dm) as i64).min(cap as i64) } else { *tokens };
                            max_avail = max_avail.max(avail);
                            if admitted {
                                if avail >= n as i64 {
                                    next.push((avail - n as i64, if *refill { *at } else { *last_fill }));
                                    refilled |= *refill;
                                }
                            } else if avail < n as i64 {
                                next.push((*tokens, *last_fill));
                            }
                        }
                    }
                    next.sort();
                    next.dedup();
                    next.truncate(32);
                    if next.is_empty() {
                        if !admitted {
                            fail!(ID, "spurious-rejection", "spurious-rejection", case,
                                "request {} at +{}ms: value {} batch {} rejected although every reference bucket state holds enough tokens (states {:?}, q {}, b {}, d {}s)", i, at, v, n, states, qv, r.burst, r.d_sec);
                        }
                        // an admission no reference state explains: judged by the bound (i) only from here on
                        b.states = None;
                        n_unjudged += 1;
                    } else {
                        b.states = Some(next);
                    }
                }
                let _ = max_avail;
                if admitted {
                    b.admitted += n;
                    // bound (i): admitted * d <= (q + b) * d + q * (t - first), all in integer ms
                    if b.admitted * dm > cap * dm + qv * (*at - b.first) {
                        fail!(ID, "bound-exceeded", "bound-exceeded", case,
                            "request {} at +{}ms: value {} has {} tokens admitted since +{}ms > q+b+q(t-first)/d = {} + {}*{}/{}", i, at, v, b.admitted, b.first, cap, qv, *at - b.first, dm);
                    }
                    if refilled {
                        n_refill += 1;
                    }
                } else {
                    n_rej += 1;
                }
            }
        }
    }
    // (iii) no cross-talk: value A alone
    let a = case.probe_value;
    let only_a: Vec<(u64, usize, u32)> = reqs.iter().filter(|x| x.1 == a).cloned().collect();
    let dec_a: Vec<bool> = reqs.iter().zip(full.iter()).filter(|(x, _)| x.1 == a).map(|(_, d)| *d).collect();
    let interleaved = reqs.iter().any(|x| x.1 != a) && !only_a.is_empty();
    if interleaved {
        let t1 = clock::new_case_epoch() + case.phase_ms;
        let res2 = util::fresh_name("c06p");
        match run_history(t1, to_rule(&res2, r, true, r.q), r.keyed, &only_a) {
            Ok(d) => {
                if d != dec_a {
                    fail!(ID, "cross-talk", "cross-talk", case,
                        "decisions for value {} change when the other values' requests are removed: interleaved {:?} vs alone {:?}", a, dec_a, d);
                }
            }
            Err(e) => fail!(ID, "wrong-block-type", "wrong-block-type", case, "{}", e),
        }
    }
    // (iv) override locality
    let has_override = r.overrides.iter().any(|o| o.is_some());
    if has_override && !only_a.is_empty() {
        let t2 = clock::new_case_epoch() + case.phase_ms;
        let res3 = util::fresh_name("c06o");
        let thr = r.overrides[a].unwrap_or(r.q);
        match run_history(t2, to_rule(&res3, r, false, thr), r.keyed, &only_a) {
            Ok(d) => {
                if d != dec_a {
                    fail!(ID, "override-not-local", "override-not-local", case,
                        "value {} (override {:?}) decided {:?} but under a plain rule with threshold {} it is {:?}", a, r.overrides[a], dec_a, thr, d);
                }
            }
            Err(e) => fail!(ID, "wrong-block-type", "wrong-block-type", case, "{}", e),
        }
    }
    let distinct_vals: std::collections::HashSet<usize> = reqs.iter().map(|x| x.1).collect();
    let mut classes = Vec::new();
    if r.keyed { classes.push("keyed"); } else { classes.push("positional"); }
    if has_override { classes.push("override-table"); }
    if n_refill > 0 { classes.push("refill"); }
    if interleaved { classes.push("interleaved-values"); }
    if r.q == 0 { classes.push("threshold-0"); }
    Verdict::Pass(CaseReport {
        nontrivial: distinct_vals.len() >= 2 && n_refill >= 1 && n_rej >= 1,
        classes,
        digest: digest_of(case),
        decoded: if cfg.want_decoded { serde_json::to_value(case).ok() } else { None },
        known_hits: vec![],
        counters: vec![("rejections", n_rej), ("refills", n_refill), ("values_no_longer_judged_by_reference", n_unjudged)],
    })
}
