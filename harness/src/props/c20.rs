//! C20 — Tower middleware calls the service iff admitted and always releases admission.
use crate::engine::*;
use crate::props::common::digest_of;
use crate::util::{self, clock};
use sentinel_core::base::ConcurrencyStat;
use sentinel_core::{isolation, stat};
use sentinel_tower::{BoxError, SentinelService, ServiceRole};
use serde::Serialize;
use std::future::Future;
use std::pin::Pin;
use std::sync::{Arc, Mutex};
use std::task::{Context, Poll, Waker};
use tower::Service;

pub struct C20;

#[derive(Debug, Clone, Copy, Serialize, PartialEq)]
pub enum Outcome {
    ReadyOk,
    ReadyErr,
    PendingOk(u8),
    PendingErr(u8),
}

#[derive(Debug, Clone, Serialize)]
pub enum Op {
    Call(Outcome),
    Poll(usize),
    Drop(usize),
}

#[derive(Debug, Clone, Serialize)]
pub struct Case {
    pub threshold: u32,
    pub server_role: bool,
    pub fallback: bool,
    pub allow_drop: bool,
    pub ops: Vec<Op>,
}

pub fn decode(u: &mut Bytes) -> Case {
    let threshold = 1 + u.choice(3) as u32;
    let server_role = u.bool();
    let fallback = u.bool();
    let allow_drop = u.choice(8) == 7;
    let n = 2 + u.choice(28);
    let mut ops = Vec::new();
    for _ in 0..n {
        let k = u.choice(10);
        if k < 5 {
            let o = match u.choice(6) {
                0 | 1 => Outcome::ReadyOk,
                2 => Outcome::ReadyErr,
                3 => Outcome::PendingOk(1 + u.choice(3) as u8),
                4 => Outcome::PendingErr(1 + u.choice(3) as u8),
                _ => Outcome::PendingErr(1),
            };
            ops.push(Op::Call(o));
        } else if k == 9 && allow_drop {
            ops.push(Op::Drop(u.choice(6)));
        } else {
            ops.push(Op::Poll(u.choice(6)));
        }
    }
    Case { threshold, server_role, fallback, allow_drop, ops }
}

#[derive(Debug)]
struct MyErr(String);
impl std::fmt::Display for MyErr {
    fn fmt(&self, f: &mut std::fmt::Formatter<'_>) -> std::fmt::Result {
        write!(f, "{}", self.0)
    }
}
impl std::error::Error for MyErr {}

#[derive(Clone)]
struct Request {
    id: u32,
    res: String,
    outcome: Outcome,
}

#[derive(Default)]
struct InnerState {
    calls: Vec<u32>,
}

#[derive(Clone)]
struct Scripted(Arc<Mutex<InnerState>>);

struct ScriptFuture {
    id: u32,
    pend: u8,
    ok: bool,
}

impl Future for ScriptFuture {
    type Output = Result<u32, MyErr>;
    fn poll(mut self: Pin<&mut Self>, cx: &mut Context<'_>) -> Poll<Self::Output> {
        if self.pend > 0 {
            self.pend -= 1;
            cx.waker().wake_by_ref();
            return Poll::Pending;
        }
        if self.ok {
            Poll::Ready(Ok(self.id))
        } else {
            Poll::Ready(Err(MyErr(format!("inner error {}", self.id))))
        }
    }
}

impl Service<Request> for Scripted {
    type Response = u32;
    type Error = MyErr;
    type Future = ScriptFuture;
    fn poll_ready(&mut self, _cx: &mut Context<'_>) -> Poll<Result<(), Self::Error>> {
        Poll::Ready(Ok(()))
    }
    fn call(&mut self, req: Request) -> Self::Future {
        self.0.lock().unwrap().calls.push(req.id);
        match req.outcome {
            Outcome::ReadyOk => ScriptFuture { id: req.id, pend: 0, ok: true },
            Outcome::ReadyErr => ScriptFuture { id: req.id, pend: 0, ok: false },
            Outcome::PendingOk(j) => ScriptFuture { id: req.id, pend: j, ok: true },
            Outcome::PendingErr(j) => ScriptFuture { id: req.id, pend: j, ok: false },
        }
    }
}

const FALLBACK_MARK: u32 = 999_999;

fn extractor(r: &Request) -> String {
    r.res.clone()
}

fn fallback(_r: &Request, _e: sentinel_core::Error) -> Result<u32, BoxError> {
    Ok(FALLBACK_MARK)
}

struct Live {
    id: u32,
    admitted: bool,
    outcome: Outcome,
    fut: Pin<Box<dyn Future<Output = Result<u32, BoxError>> + Send>>,
}

impl Property for C20 {
    fn id(&self) -> &'static str {
        "C20"
    }
    fn budget(&self, tier: Tier) -> Budget {
        match tier {
            Tier::Quick => Budget { cases: 6000, shards: 16, min_len: 12, max_len: 120 },
            Tier::Thorough => Budget { cases: 200_000, shards: 16, min_len: 12, max_len: 120 },
        }
    }
    fn rule(&self) -> String {
        "bytes -> SentinelService (Server or Client role, with or without fallback) over a scripted inner service, an isolation rule (threshold 1..3) on the extracted resource, 2-29 operations call(outcome in ready Ok / ready Err / pending x j then Ok / pending x j then Err) and poll(any live future, once, no-op waker), so several requests are in flight and complete in a generated order; InFlightModel: admitted <=> in-flight + 1 <= T at call(), inner call count +1 iff admitted, rejected => fallback response or Err, after a future resolves (Ok or Err) the resource's (and for Server role the inbound node's) in-flight count is back and the next request is admitted accordingly; futures dropped before completion are generated in a separate class (1/8 of cases) and only reported; non-trivial = >= 1 inner Err followed by a later request at the cap; distinct = distinct decoded cases".into()
    }
    fn assumptions(&self) -> Vec<String> {
        vec![
            "the Tower crate (middleware/tower) is built against /repo's sentinel-core via [patch.crates-io]; middleware/tonic cannot be built offline (tonic 0.8 not cached)".into(),
            "futures are polled by a deterministic hand-rolled executor on one thread".into(),
            "after a future is dropped before completion the in-flight assertions stop for that case (dropping is explored and counted, not judged)".into(),
        ]
    }
    fn run(&self, bytes: &[u8], cfg: &RunCfg) -> Verdict {
        let mut u = Bytes::new(bytes);
        let case = decode(&mut u);
        match run_case(&case) {
            Err((clause, detail)) => Verdict::Fail(Failure {
                clause: clause.clone(),
                key: format!("C20|{}", clause),
                detail,
                decoded: serde_json::to_value(&case).unwrap(),
            }),
            Ok((nontrivial, classes, dropped)) => Verdict::Pass(CaseReport {
                nontrivial,
                classes,
                digest: digest_of(&case),
                decoded: if cfg.want_decoded { serde_json::to_value(&case).ok() } else { None },
                known_hits: vec![],
                counters: vec![("futures_dropped_before_completion", dropped)],
            }),
        }
    }
}

fn run_case(case: &Case) -> Result<(bool, Vec<&'static str>, u64), (String, String)> {
    util::reset_all();
    clock::new_case_epoch();
    let res = util::fresh_name("c20");
    isolation::load_rules(vec![Arc::new(isolation::Rule { resource: res.clone(), threshold: case.threshold, ..Default::default() })]);
    let inner_state = Arc::new(Mutex::new(InnerState::default()));
    let inner = Scripted(inner_state.clone());
    let mut svc: SentinelService<Scripted, Request> =
        SentinelService::new(inner, if case.server_role { ServiceRole::Server } else { ServiceRole::Client }).with_extractor(extractor);
    if case.fallback {
        svc = svc.with_fallback(fallback);
    }
    let inbound = stat::inbound_node();
    let inbound_base = inbound.current_concurrency();
    let waker = Waker::noop();
    let mut cx = Context::from_waker(waker);
    let mut live: Vec<Live> = Vec::new();
    let mut inflight: u32 = 0;
    let mut expected_calls: Vec<u32> = Vec::new();
    let mut next_id = 0u32;
    let mut dropped = 0u64;
    let mut judged = true;
    let (mut inner_err_seen, mut at_cap_after_err, mut n_rej) = (false, false, 0u64);

    let check_counts = |inflight: u32, judged: bool, what: &str| -> Result<(), (String, String)> {
        if !judged {
            return Ok(());
        }
        let node = stat::get_resource_node(&res);
        let c = node.map(|n| n.current_concurrency()).unwrap_or(0);
        if c != inflight {
            return Err(("admission-not-released".into(), format!("{}: resource in-flight is {} but {} admitted requests are unfinished", what, c, inflight)));
        }
        if case.server_role {
            let ic = inbound.current_concurrency() - inbound_base;
            if ic != inflight {
                return Err(("inbound-admission-not-released".into(), format!("{}: inbound in-flight is {} but {} admitted requests are unfinished", what, ic, inflight)));
            }
        }
        Ok(())
    };

    for (oi, op) in case.ops.iter().enumerate() {
        match op {
            Op::Call(outcome) => {
                let id = next_id;
                next_id += 1;
                let expect_admit = inflight + 1 <= case.threshold;
                if inner_err_seen && inflight + 1 >= case.threshold {
                    at_cap_after_err = true;
                }
                match svc.poll_ready(&mut cx) {
                    Poll::Ready(Ok(())) => {}
                    _ => return Err(("poll-ready-failed".into(), format!("op {}", oi))),
                }
                let fut = svc.call(Request { id, res: res.clone(), outcome: *outcome });
                let called = inner_state.lock().unwrap().calls.clone();
                let admitted = called.last() == Some(&id) && called.len() == expected_calls.len() + 1;
                if judged {
                    if admitted != expect_admit {
                        return Err((
                            if admitted { "called-although-rejected".into() } else { "rejected-although-capacity".into() },
                            format!("op {} request {}: inner service {} but in-flight {} / threshold {}", oi, id, if admitted { "was called" } else { "was not called" }, inflight, case.threshold),
                        ));
                    }
                }
                if admitted {
                    expected_calls.push(id);
                    inflight += 1;
                } else {
                    n_rej += 1;
                }
                if called != expected_calls {
                    return Err(("inner-call-count".into(), format!("op {}: inner calls {:?}, expected {:?}", oi, called, expected_calls)));
                }
                live.push(Live { id, admitted, outcome: *outcome, fut });
                check_counts(inflight, judged, &format!("after call of request {}", id))?;
            }
            Op::Poll(k) => {
                if live.is_empty() {
                    continue;
                }
                let i = *k % live.len();
                let r = live[i].fut.as_mut().poll(&mut cx);
                if let Poll::Ready(out) = r {
                    let l = live.remove(i);
                    if l.admitted {
                        inflight -= 1;
                        let want_ok = matches!(l.outcome, Outcome::ReadyOk | Outcome::PendingOk(_));
                        match (&out, want_ok) {
                            (Ok(v), true) if *v == l.id => {}
                            (Err(_), false) => {
                                inner_err_seen = true;
                            }
                            _ => return Err(("wrong-output".into(), format!("request {} ({:?}) resolved to {:?}", l.id, l.outcome, out.as_ref().map_err(|e| e.to_string())))),
                        }
                    } else {
                        match (&out, case.fallback) {
                            (Ok(v), true) if *v == FALLBACK_MARK => {}
                            (Err(_), false) => {}
                            _ => return Err(("wrong-rejection-output".into(), format!("rejected request {} resolved to {:?} (fallback configured: {})", l.id, out.as_ref().map_err(|e| e.to_string()), case.fallback))),
                        }
                    }
                    check_counts(inflight, judged, &format!("after request {} resolved ({:?})", l.id, l.outcome))?;
                }
                let called = inner_state.lock().unwrap().calls.clone();
                if called != expected_calls {
                    return Err(("inner-call-count".into(), format!("op {}: inner calls {:?}, expected {:?}", oi, called, expected_calls)));
                }
            }
            Op::Drop(k) => {
                if live.is_empty() {
                    continue;
                }
                let i = *k % live.len();
                let l = live.remove(i);
                if l.admitted {
                    dropped += 1;
                    judged = false; // reported, not asserted
                }
                drop(l);
            }
        }
    }
    // drive everything still alive to completion
    let mut guard = 0;
    while !live.is_empty() && guard < 200 {
        guard += 1;
        let mut i = 0;
        while i < live.len() {
            if let Poll::Ready(_) = live[i].fut.as_mut().poll(&mut cx) {
                let l = live.remove(i);
                if l.admitted {
                    inflight -= 1;
                }
            } else {
                i += 1;
            }
        }
    }
    check_counts(inflight, judged, "after all futures resolved")?;
    // whatever leaked through dropped futures is released by the harness so later cases start clean
    if let Some(node) = stat::get_resource_node(&res) {
        while node.current_concurrency() > 0 {
            node.decrease_concurrency();
        }
    }
    while inbound.current_concurrency() > inbound_base {
        inbound.decrease_concurrency();
    }
    let mut classes = vec![if case.server_role { "server-role" } else { "client-role" }, if case.fallback { "with-fallback" } else { "without-fallback" }];
    if dropped > 0 { classes.push("future-dropped-before-completion"); }
    if n_rej > 0 { classes.push("has-rejection"); }
    if inner_err_seen { classes.push("inner-error"); }
    Ok((inner_err_seen && at_cap_after_err, classes, dropped))
}
