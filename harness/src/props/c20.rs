//! C20 — Tower middleware calls the service iff admitted and always releases admission.
use crate::engine::*;
use crate::props::common::digest_of;
use crate::util::{self, clock};
use sentinel_core::base::ConcurrencyStat;
use sentinel_core::{isolation, stat};
use sentinel_tower::{BoxError, SentinelLayer, SentinelService, ServiceRole};
use serde::Serialize;
use std::future::Future;
use std::pin::Pin;
use std::sync::{Arc, Mutex};
use std::task::{Context, Poll, Waker};
use tower::{Layer, Service};

pub struct C20;

#[derive(Debug, Clone, Copy, Serialize, PartialEq)]
pub enum Outcome {
    ReadyOk,
    ReadyErr,
    PendingOk(u8),
    PendingErr(u8),
}

#[derive(Debug, Clone, Serialize)]
pub enum Op {
    /// outcome of the inner service, index of the resource the request is for
    Call(Outcome, usize),
    Poll(usize),
    Drop(usize),
    /// the clock moves on by this many ms (requests may take long: more than the 60 s statistic maximum included)
    Advance(u64),
}

#[derive(Debug, Clone, Serialize)]
pub struct Case {
    pub threshold: u32,
    pub server_role: bool,
    pub fallback: bool,
    pub allow_drop: bool,
    pub ops: Vec<Op>,
    /// built through SentinelLayer::layer instead of SentinelService::new
    pub via_layer: bool,
    /// isolation threshold of the second resource (0 = it has no rule); requests pick a resource
    pub threshold2: u32,
    /// 0 = none; otherwise a flow rule (reject, per second) of this threshold on the first resource: with the clock
    /// standing still it caps the number of admitted requests of the whole case
    pub flow_cap: u32,
    /// the calls go through a clone of the service taken after configuration
    pub via_clone: bool,
}

pub fn decode(u: &mut Bytes) -> Case {
    let threshold = 1 + u.choice(3) as u32;
    let server_role = u.bool();
    let fallback = u.bool();
    let allow_drop = u.choice(8) == 7;
    let n = 2 + u.choice(28);
    let mut ops = Vec::new();
    for _ in 0..n {
        let k = u.choice(10);
        if k < 5 {
            let o = match u.choice(6) {
                0 | 1 => Outcome::ReadyOk,
                2 => Outcome::ReadyErr,
                3 => Outcome::PendingOk(1 + u.choice(3) as u8),
                4 => Outcome::PendingErr(1 + u.choice(3) as u8),
                _ => Outcome::PendingErr(1),
            };
            ops.push(Op::Call(o, 0));
        } else if k == 9 && allow_drop {
            ops.push(Op::Drop(u.choice(6)));
        } else {
            ops.push(Op::Poll(u.choice(6)));
        }
    }
    // fields added later are drawn from the tail so that committed replays keep their meaning
    let via_layer = u.tail_u8() >= 128;
    let two = u.tail_u8() >= 128;
    let threshold2 = u.tail_choice(4) as u32;
    let flow_cap = [0u32, 0, 0, 2, 3, 5, 8][u.tail_choice(7)];
    let via_clone = u.tail_u8() >= 192;
    if two {
        for op in ops.iter_mut() {
            if let Op::Call(_, r) = op {
                *r = u.tail_choice(2);
            }
        }
    }
    // time passes between operations in a third of the cases without a flow rule (whose window needs a standing clock)
    if flow_cap == 0 && u.tail_choice(3) == 2 {
        for op in ops.iter_mut() {
            if let Op::Poll(_) = op {
                if u.tail_choice(3) == 2 {
                    *op = Op::Advance([1u64, 400, 1000, 10_000, 59_999, 60_000, 60_001, 600_000][u.tail_choice(8)]);
                }
            }
        }
    }
    Case { threshold, server_role, fallback, allow_drop, ops, via_layer, threshold2, flow_cap, via_clone }
}

#[derive(Debug)]
struct MyErr(String);
impl std::fmt::Display for MyErr {
    fn fmt(&self, f: &mut std::fmt::Formatter<'_>) -> std::fmt::Result {
        write!(f, "{}", self.0)
    }
}
impl std::error::Error for MyErr {}

#[derive(Clone)]
struct Request {
    id: u32,
    res: String,
    outcome: Outcome,
}

#[derive(Default)]
struct InnerState {
    calls: Vec<u32>,
}

#[derive(Clone)]
struct Scripted(Arc<Mutex<InnerState>>);

struct ScriptFuture {
    id: u32,
    pend: u8,
    ok: bool,
}

impl Future for ScriptFuture {
    type Output = Result<u32, MyErr>;
    fn poll(mut self: Pin<&mut Self>, cx: &mut Context<'_>) -> Poll<Self::Output> {
        if self.pend > 0 {
            self.pend -= 1;
            cx.waker().wake_by_ref();
            return Poll::Pending;
        }
        if self.ok {
            Poll::Ready(Ok(self.id))
        } else {
            Poll::Ready(Err(MyErr(format!("inner error {}", self.id))))
        }
    }
}

impl Service<Request> for Scripted {
    type Response = u32;
    type Error = MyErr;
    type Future = ScriptFuture;
    fn poll_ready(&mut self, _cx: &mut Context<'_>) -> Poll<Result<(), Self::Error>> {
        Poll::Ready(Ok(()))
    }
    fn call(&mut self, req: Request) -> Self::Future {
        self.0.lock().unwrap().calls.push(req.id);
        match req.outcome {
            Outcome::ReadyOk => ScriptFuture { id: req.id, pend: 0, ok: true },
            Outcome::ReadyErr => ScriptFuture { id: req.id, pend: 0, ok: false },
            Outcome::PendingOk(j) => ScriptFuture { id: req.id, pend: j, ok: true },
            Outcome::PendingErr(j) => ScriptFuture { id: req.id, pend: j, ok: false },
        }
    }
}

const FALLBACK_MARK: u32 = 999_999;

fn extractor(r: &Request) -> String {
    r.res.clone()
}

/// the fallback answers with a value that names the request it was given
fn fallback(r: &Request, _e: sentinel_core::Error) -> Result<u32, BoxError> {
    Ok(FALLBACK_MARK + r.id)
}

struct Live {
    id: u32,
    res: usize,
    admitted: bool,
    outcome: Outcome,
    fut: Pin<Box<dyn Future<Output = Result<u32, BoxError>> + Send>>,
}

impl Property for C20 {
    fn id(&self) -> &'static str {
        "C20"
    }
    fn budget(&self, tier: Tier) -> Budget {
        match tier {
            Tier::Quick => Budget { cases: 18_000, shards: 16, min_len: 12, max_len: 120 },
            Tier::Thorough => Budget { cases: 200_000, shards: 16, min_len: 12, max_len: 120 },
        }
    }
    fn rule(&self) -> String {
        "bytes -> SentinelService (Server or Client role, with or without fallback; built by SentinelService::new or by SentinelLayer::layer, optionally cloned) over a scripted inner service; one or two resources chosen per request through the extractor, an isolation rule (threshold 1..3) on the first, an isolation rule or no rule on the second, optionally a flow rule on the first (the clock stands still, so it caps the admissions of the case); 2-29 operations advance-clock (a third of the cases without a flow rule; 1 ms .. 10 min incl. 60 000 +- 1 ms), call(outcome in ready Ok / ready Err / pending x j then Ok / pending x j then Err) and poll(any live future, once, no-op waker), so several requests are in flight and complete in a generated order; InFlightModel per resource: admitted <=> Sentinel admits (in-flight + 1 <= T and the flow rule has room) at call(), inner call count +1 iff admitted, rejected => the fallback's answer for that very request or a non-inner Err, an inner Err reaches the caller unchanged, after a future resolves (Ok or Err) the resource's in-flight count is back (the inbound node mirrors Server-role requests and is untouched by Client-role ones), every future resolves, and (clock standing still) pass / completion totals equal the admitted requests; futures dropped before completion are generated in a separate class (1/8 of cases) and only reported; non-trivial = >= 1 inner Err followed by a later request at the cap; distinct = distinct decoded cases".into()
    }
    fn assumptions(&self) -> Vec<String> {
        vec![
            "the Tower crate (middleware/tower) is built against /repo's sentinel-core via [patch.crates-io]; middleware/tonic cannot be built offline (tonic 0.8 not cached)".into(),
            "futures are polled by a deterministic hand-rolled executor on one thread".into(),
            "after a future is dropped before completion the in-flight assertions stop for that case (dropping is explored and counted, not judged)".into(),
        ]
    }
    fn run(&self, bytes: &[u8], cfg: &RunCfg) -> Verdict {
        let mut u = Bytes::new(bytes);
        let case = decode(&mut u);
        match run_case(&case) {
            Err((clause, detail)) => Verdict::Fail(Failure {
                clause: clause.clone(),
                key: format!("C20|{}", clause),
                detail,
                decoded: serde_json::to_value(&case).unwrap(),
            }),
            Ok((nontrivial, classes, dropped)) => Verdict::Pass(CaseReport {
                nontrivial,
                classes,
                digest: digest_of(&case),
                decoded: if cfg.want_decoded { serde_json::to_value(&case).ok() } else { None },
                known_hits: vec![],
                counters: vec![("futures_dropped_before_completion", dropped)],
            }),
        }
    }
}

fn run_case(case: &Case) -> Result<(bool, Vec<&'static str>, u64), (String, String)> {
    util::reset_all();
    clock::new_case_epoch();
    let names = [util::fresh_name("c20"), util::fresh_name("c20b")];
    let thresholds = [case.threshold, case.threshold2];
    let mut rules = vec![Arc::new(isolation::Rule { resource: names[0].clone(), threshold: case.threshold, ..Default::default() })];
    if case.threshold2 > 0 {
        rules.push(Arc::new(isolation::Rule { resource: names[1].clone(), threshold: case.threshold2, ..Default::default() }));
    }
    isolation::load_rules(rules);
    if case.flow_cap > 0 {
        sentinel_core::flow::load_rules(vec![Arc::new(sentinel_core::flow::Rule { resource: names[0].clone(), threshold: case.flow_cap as f64, ..Default::default() })]);
    }
    let inner_state = Arc::new(Mutex::new(InnerState::default()));
    let inner = Scripted(inner_state.clone());
    let role = if case.server_role { ServiceRole::Server } else { ServiceRole::Client };
    let mut svc: SentinelService<Scripted, Request> = if case.via_layer {
        let mut layer: SentinelLayer<Scripted, Request, ()> = SentinelLayer::new(role).with_extractor(extractor);
        if case.fallback {
            layer = layer.with_fallback(fallback);
        }
        layer.clone().layer(inner)
    } else {
        let mut svc = SentinelService::new(inner, role).with_extractor(extractor);
        if case.fallback {
            svc = svc.with_fallback(fallback);
        }
        svc
    };
    if case.via_clone {
        svc = svc.clone();
    }
    let inbound = stat::inbound_node();
    let inbound_base = inbound.current_concurrency();
    let waker = Waker::noop();
    let mut cx = Context::from_waker(waker);
    let mut live: Vec<Live> = Vec::new();
    let mut inflight = [0u32; 2];
    let mut admitted_total = [0u32; 2];
    let mut expected_calls: Vec<u32> = Vec::new();
    let mut next_id = 0u32;
    let mut dropped = 0u64;
    let mut judged = true;
    let (mut inner_err_seen, mut at_cap_after_err, mut n_rej, mut n_flow_rej) = (false, false, 0u64, 0u64);
    let mut used = [false; 2];
    let (mut advanced, mut long_call) = (false, false);

    let check_counts = |inflight: &[u32; 2], judged: bool, what: &str| -> Result<(), (String, String)> {
        if !judged {
            return Ok(());
        }
        for k in 0..2 {
            let node = stat::get_resource_node(&names[k]);
            let c = node.map(|n| n.current_concurrency()).unwrap_or(0);
            if c != inflight[k] {
                return Err(("admission-not-released".into(), format!("{}: in-flight of resource {} is {} but {} admitted requests are unfinished", what, k, c, inflight[k])));
            }
        }
        let ic = inbound.current_concurrency() as i64 - inbound_base as i64;
        let want = if case.server_role { (inflight[0] + inflight[1]) as i64 } else { 0 };
        if ic != want {
            return Err((
                if case.server_role { "inbound-admission-not-released".into() } else { "client-role-counted-as-inbound".into() },
                format!("{}: inbound in-flight changed by {} but {} expected ({} role, {} admitted requests unfinished)", what, ic, want, if case.server_role { "server" } else { "client" }, inflight[0] + inflight[1]),
            ));
        }
        Ok(())
    };

    for (oi, op) in case.ops.iter().enumerate() {
        match op {
            Op::Call(outcome, r) => {
                let r = *r;
                used[r] = true;
                let id = next_id;
                next_id += 1;
                let iso_ok = thresholds[r] == 0 || inflight[r] + 1 <= thresholds[r];
                let flow_ok = !(r == 0 && case.flow_cap > 0) || admitted_total[0] + 1 <= case.flow_cap;
                let expect_admit = iso_ok && flow_ok;
                if inner_err_seen && thresholds[r] > 0 && inflight[r] + 1 >= thresholds[r] {
                    at_cap_after_err = true;
                }
                match svc.poll_ready(&mut cx) {
                    Poll::Ready(Ok(())) => {}
                    _ => return Err(("poll-ready-failed".into(), format!("op {}", oi))),
                }
                let fut = svc.call(Request { id, res: names[r].clone(), outcome: *outcome });
                let called = inner_state.lock().unwrap().calls.clone();
                let admitted = called.last() == Some(&id) && called.len() == expected_calls.len() + 1;
                if judged {
                    if admitted != expect_admit {
                        return Err((
                            if admitted { "called-although-rejected".into() } else { "rejected-although-capacity".into() },
                            format!(
                                "op {} request {} on resource {}: inner service {} but in-flight {} / isolation threshold {} (0 = none), admitted so far {} / flow threshold {} (0 = none)",
                                oi, id, r, if admitted { "was called" } else { "was not called" }, inflight[r], thresholds[r], admitted_total[r], if r == 0 { case.flow_cap } else { 0 }
                            ),
                        ));
                    }
                }
                if admitted {
                    expected_calls.push(id);
                    inflight[r] += 1;
                    admitted_total[r] += 1;
                } else {
                    n_rej += 1;
                    if iso_ok { n_flow_rej += 1; }
                }
                if called != expected_calls {
                    return Err(("inner-call-count".into(), format!("op {}: inner calls {:?}, expected {:?}", oi, called, expected_calls)));
                }
                live.push(Live { id, res: r, admitted, outcome: *outcome, fut });
                check_counts(&inflight, judged, &format!("after call of request {}", id))?;
            }
            Op::Poll(k) => {
                if live.is_empty() {
                    continue;
                }
                let i = *k % live.len();
                let r = live[i].fut.as_mut().poll(&mut cx);
                if let Poll::Ready(out) = r {
                    let l = live.remove(i);
                    let shown = out.as_ref().map(|v| *v).map_err(|e| e.to_string());
                    if l.admitted {
                        inflight[l.res] -= 1;
                        let want_ok = matches!(l.outcome, Outcome::ReadyOk | Outcome::PendingOk(_));
                        match (&shown, want_ok) {
                            (Ok(v), true) if *v == l.id => {}
                            // the caller gets the inner service's own error
                            (Err(m), false) if *m == format!("inner error {}", l.id) => {
                                inner_err_seen = true;
                            }
                            _ => return Err(("wrong-output".into(), format!("request {} ({:?}) resolved to {:?}", l.id, l.outcome, shown))),
                        }
                    } else {
                        match (&shown, case.fallback) {
                            // the fallback's answer for exactly this request
                            (Ok(v), true) if *v == FALLBACK_MARK + l.id => {}
                            (Err(m), false) if !m.starts_with("inner error") => {}
                            _ => return Err(("wrong-rejection-output".into(), format!("rejected request {} resolved to {:?} (fallback configured: {})", l.id, shown, case.fallback))),
                        }
                    }
                    check_counts(&inflight, judged, &format!("after request {} resolved ({:?})", l.id, l.outcome))?;
                }
                let called = inner_state.lock().unwrap().calls.clone();
                if called != expected_calls {
                    return Err(("inner-call-count".into(), format!("op {}: inner calls {:?}, expected {:?}", oi, called, expected_calls)));
                }
            }
            Op::Advance(ms) => {
                clock::advance_ms(*ms);
                advanced = true;
                if *ms > 60_000 && inflight[0] + inflight[1] > 0 { long_call = true; }
            }
            Op::Drop(k) => {
                if live.is_empty() {
                    continue;
                }
                let i = *k % live.len();
                let l = live.remove(i);
                if l.admitted {
                    dropped += 1;
                    judged = false; // reported, not asserted
                }
                drop(l);
            }
        }
    }
    // drive everything still alive to completion
    let mut guard = 0;
    while !live.is_empty() && guard < 200 {
        guard += 1;
        let mut i = 0;
        while i < live.len() {
            if let Poll::Ready(_) = live[i].fut.as_mut().poll(&mut cx) {
                let l = live.remove(i);
                if l.admitted {
                    inflight[l.res] -= 1;
                }
            } else {
                i += 1;
            }
        }
    }
    if !live.is_empty() {
        return Err(("future-never-resolves".into(), format!("{} futures still pending after 200 rounds of polling", live.len())));
    }
    check_counts(&inflight, judged, "after all futures resolved")?;
    // completions are recorded once per admitted request (exit happened, and only once)
    if judged && !advanced {
        for k in 0..2 {
            if let Some(node) = stat::get_resource_node(&names[k]) {
                use sentinel_core::base::{MetricEvent, ReadStat};
                let done = node.sum(MetricEvent::Complete);
                let passed = node.sum(MetricEvent::Pass);
                if done != admitted_total[k] as u64 || passed != admitted_total[k] as u64 {
                    return Err(("completion-count".into(), format!("resource {}: {} requests were admitted and all finished, the node shows {} passed / {} completed", k, admitted_total[k], passed, done)));
                }
            }
        }
    }
    // whatever leaked through dropped futures is released by the harness so later cases start clean
    for k in 0..2 {
        if let Some(node) = stat::get_resource_node(&names[k]) {
            while node.current_concurrency() > 0 {
                node.decrease_concurrency();
            }
        }
    }
    while inbound.current_concurrency() > inbound_base {
        inbound.decrease_concurrency();
    }
    let mut classes = vec![if case.server_role { "server-role" } else { "client-role" }, if case.fallback { "with-fallback" } else { "without-fallback" }];
    classes.push(if case.via_layer { "built-by-layer" } else { "built-by-new" });
    if case.via_clone { classes.push("cloned-service"); }
    if used[0] && used[1] { classes.push(if case.threshold2 > 0 { "two-resources-two-rules" } else { "two-resources-one-unruled" }); }
    if case.flow_cap > 0 { classes.push("flow-rule-too"); }
    if n_flow_rej > 0 { classes.push("rejected-by-flow-rule"); }
    if advanced { classes.push("clock-advances"); }
    if long_call { classes.push("request-in-flight-longer-than-60s"); }
    if dropped > 0 { classes.push("future-dropped-before-completion"); }
    if n_rej > 0 { classes.push("has-rejection"); }
    if inner_err_seen { classes.push("inner-error"); }
    Ok((inner_err_seen && at_cap_after_err, classes, dropped))
}
