//! C18 — rules and metric lines survive serialisation round trips unchanged.
use super::common::*;
use crate::engine::*;
use crate::util::{self, clock};
use sentinel_core::base::{MetricItem, VerifMetricFields};
use sentinel_core::datasource::rule_json_array_parser;
use sentinel_core::{circuitbreaker as cb, flow, hotspot, isolation, system};
use serde::de::DeserializeOwned;
use serde::Serialize;
use serde_json::Value;
use std::collections::HashMap;
use std::sync::Arc;

pub struct C18;

#[derive(Debug, Clone, Serialize)]
pub struct Case {
    /// 0 flow, 1 hotspot, 2 breaker, 3 isolation, 4 system, 5 metric item
    pub family: u8,
    pub f: Vec<u8>,
    pub name: usize,
    pub nrules: usize,
    /// 0 compact, 1 pretty, 2 via Value (fields reordered), 3 drop field, 4 wrong type, 5 truncate, 6 not an array
    pub doc: u8,
    pub field: usize,
    pub cut: u16,
    pub counters: Vec<u64>,
}

pub const NAMES: [&str; 9] = [
    "abc",
    "a|b|c",
    "日本語/リソース",
    "quo\"te\\back/slash",
    "ctl\u{1}\n\t\r",
    "",
    " spaced name ",
    "emoji😀|x",
    "/api/v1/users/{id}?q=1&r=2",
];

pub fn decode(u: &mut Bytes) -> Case {
    let family = u.choice(6) as u8;
    let f: Vec<u8> = (0..14).map(|_| u.u8()).collect();
    let name = u.choice(NAMES.len());
    let nrules = 1 + u.choice(3);
    let doc = u.choice(7) as u8;
    let field = u.choice(16);
    let cut = u.u16();
    let counters = (0..8)
        .map(|_| match u.choice(7) {
            0 => 0,
            1 => 1,
            2 => u.u16() as u64,
            3 => u.u32() as u64,
            4 => [u64::MAX, u64::MAX - 1, (1u64 << 53) + 1, i64::MAX as u64, (1u64 << 62) + 12345][u.choice(5)],
            _ => ((u.u32() as u64) << 32) | u.u32() as u64,
        })
        .collect();
    Case { family, f, name, nrules, doc, field, cut, counters }
}

fn pick<T: Copy>(b: u8, xs: &[T]) -> T {
    xs[(b as usize * xs.len()) >> 8]
}

const FLOATS: [f64; 10] = [1.0, 0.0, 0.5, 7.25, 1e6, 0.1, 1.0 / 3.0, 0.30000000000000004, 123456.789, 2.2250738585072014e-308];

/// an arbitrary finite non-negative f64 in [~1e-21, 1e6] built from 64 bits of entropy (full 52-bit
/// mantissa, so that shortest-representation printing needs all 17 significant digits)
fn arbitrary_float(bits: u64) -> f64 {
    let mantissa = bits & ((1u64 << 52) - 1);
    let exp = 1023 - 70 + (bits >> 52) % 90; // 2^-70 .. 2^19
    f64::from_bits((exp << 52) | mantissa)
}

fn float_for(f: &[u8], idx: usize, k: usize, counters: &[u64]) -> f64 {
    let b = f[idx].wrapping_add(k as u8 * 30);
    if b >= 200 {
        // the last quarter of the byte range selects an arbitrary float
        arbitrary_float(counters[(k + idx) % counters.len()] ^ ((b as u64) << 56) ^ counters[0].rotate_left(17))
    } else {
        pick((b as u16 * 255 / 199) as u8, &FLOATS)
    }
}

/// a u64 field: the menu, or (last quarter of the byte range) an arbitrary 64-bit value
fn int_for(f: &[u8], idx: usize, k: usize, cn: &[u64], menu: &[u64]) -> u64 {
    let b = f[idx].wrapping_add(k as u8 * 60);
    if b >= 200 {
        cn[(k + idx) % cn.len()]
    } else {
        pick((b as u16 * 255 / 199) as u8, menu)
    }
}

fn mk_flow(f: &[u8], res: &str, k: usize, cn: &[u64]) -> flow::Rule {
    flow::Rule {
        resource: res.into(),
        ref_resource: pick(f[10], &["", "other", "a|b"]).into(),
        calculate_strategy: pick(f[0].wrapping_add(k as u8 * 90), &[flow::CalculateStrategy::Direct, flow::CalculateStrategy::WarmUp, flow::CalculateStrategy::MemoryAdaptive]),
        control_strategy: pick(f[1], &[flow::ControlStrategy::Reject, flow::ControlStrategy::Throttling]),
        relation_strategy: pick(f[2], &[flow::RelationStrategy::Current, flow::RelationStrategy::Associated]),
        threshold: float_for(f, 3, k, cn),
        warm_up_period_sec: pick(f[4], &[0u32, 1, 10, u32::MAX]),
        warm_up_cold_factor: pick(f[5], &[0u32, 2, 3]),
        max_queueing_time_ms: pick(f[6], &[0u32, 10, 600_000]),
        stat_interval_ms: pick(f[7], &[0u32, 1, 1000, 2000, 700]),
        low_mem_usage_threshold: int_for(f, 8, k, cn, &[0u64, 1000, u64::MAX]),
        high_mem_usage_threshold: pick(f[9], &[0u64, 100]),
        mem_low_water_mark: pick(f[11], &[0u64, 1024]),
        mem_high_water_mark: pick(f[12], &[0u64, 2048]),
        ..Default::default()
    }
}

fn mk_hot(f: &[u8], res: &str, k: usize, cn: &[u64]) -> hotspot::Rule {
    let mut items = HashMap::new();
    match pick(f[10], &[0u8, 1, 2]) {
        1 => {
            items.insert("a".to_string(), 0u64);
        }
        2 => {
            items.insert("a|b".to_string(), 5u64);
            items.insert("ключ\"".to_string(), u64::MAX);
            items.insert("".to_string(), 1);
        }
        _ => {}
    }
    hotspot::Rule {
        resource: res.into(),
        metric_type: pick(f[0], &[hotspot::MetricType::QPS, hotspot::MetricType::Concurrency]),
        control_strategy: pick(f[1], &[hotspot::ControlStrategy::Reject, hotspot::ControlStrategy::Throttling]),
        param_index: pick(f[2], &[0isize, 1, -1, -3, isize::MAX, isize::MIN]),
        param_key: pick(f[3], &["", "k", " k\"|"]).to_string(),
        threshold: int_for(f, 4, k, cn, &[1u64, 0, 2, 1_000_000, u64::MAX]),
        max_queueing_time_ms: int_for(f, 5, k, cn, &[0u64, 10, u64::MAX]),
        burst_count: int_for(f, 6, k, cn, &[0u64, 1, 1_000_000]),
        duration_in_sec: pick(f[7], &[1u64, 0, 3]),
        params_max_capacity: pick(f[8], &[0usize, 1, 20_000]),
        specific_items: items,
        ..Default::default()
    }
}

fn mk_cb(f: &[u8], res: &str, k: usize, cn: &[u64]) -> cb::Rule {
    cb::Rule {
        resource: res.into(),
        strategy: pick(f[0], &[cb::BreakerStrategy::ErrorCount, cb::BreakerStrategy::ErrorRatio, cb::BreakerStrategy::SlowRequestRatio]),
        retry_timeout_ms: pick(f[1], &[1000u32, 0, 1, u32::MAX]),
        min_request_amount: int_for(f, 2, k, cn, &[0u64, 1, u64::MAX]),
        stat_interval_ms: pick(f[3], &[1000u32, 0, 7]),
        stat_sliding_window_bucket_count: pick(f[4], &[0u32, 1, 2, 7]),
        max_allowed_rt_ms: pick(f[5], &[0u64, 10]),
        threshold: float_for(f, 6, k, cn),
        ..Default::default()
    }
}

fn mk_iso(f: &[u8], res: &str, k: usize) -> isolation::Rule {
    isolation::Rule { resource: res.into(), threshold: pick(f[0].wrapping_add(k as u8 * 70), &[1u32, 0, 2, u32::MAX]), ..Default::default() }
}

fn mk_sys(f: &[u8], k: usize, cn: &[u64]) -> system::Rule {
    system::Rule {
        metric_type: pick(f[0].wrapping_add(k as u8 * 60), &[
            system::MetricType::Concurrency,
            system::MetricType::InboundQPS,
            system::MetricType::AvgRT,
            system::MetricType::Load,
            system::MetricType::CpuUsage,
        ]),
        strategy: pick(f[1], &[system::AdaptiveStrategy::NoAdaptive, system::AdaptiveStrategy::BBR]),
        threshold: float_for(f, 2, k, cn),
        ..Default::default()
    }
}

type R = Result<(bool, Vec<&'static str>), (String, String)>;

/// the round-trip / malformed-document clauses for one family
fn judge_rules<T>(case: &Case, rules: Vec<T>, default_json: Value) -> R
where
    T: Serialize + DeserializeOwned + sentinel_core::base::SentinelRule + PartialEq + std::fmt::Debug,
{
    let orig_json = serde_json::to_value(&rules).map_err(|e| ("serialize-failed".to_string(), e.to_string()))?;
    let compact = serde_json::to_string(&rules).map_err(|e| ("serialize-failed".to_string(), e.to_string()))?;
    let mut classes: Vec<&'static str> = Vec::new();
    let strip_id = |v: &Value| -> Value {
        let mut v = v.clone();
        if let Some(a) = v.as_array_mut() {
            for o in a.iter_mut() {
                if let Some(m) = o.as_object_mut() {
                    m.remove("id");
                }
            }
        }
        v
    };
    let parse = |src: &str| rule_json_array_parser::<T>(src);
    match case.doc {
        0 | 1 | 2 => {
            let src = match case.doc {
                0 => compact.clone(),
                1 => serde_json::to_string_pretty(&rules).unwrap(),
                _ => serde_json::to_string(&orig_json).unwrap(), // keys in sorted order
            };
            classes.push(["compact-document", "pretty-document", "reordered-fields"][case.doc as usize]);
            let parsed = parse(&src).map_err(|e| ("valid-document-refused".to_string(), format!("{} for {}", e, src)))?;
            if parsed.len() != rules.len() {
                return Err(("rule-count-changed".into(), format!("{} rules parsed from {}", parsed.len(), src)));
            }
            for (p, o) in parsed.iter().zip(rules.iter()) {
                // field by field: PartialEq (which ignores some fields) and the full JSON value (maps compared as maps)
                if **p != *o || serde_json::to_value(&**p).ok() != serde_json::to_value(o).ok() {
                    return Err(("round-trip-mismatch".into(), format!("parsed {:?}\noriginal {:?}\ndocument {}", p, o, src)));
                }
            }
        }
        3 => {
            // drop one field of the first rule: it must take its default (id: a fresh non-empty one)
            classes.push("dropped-field");
            let mut v = orig_json.clone();
            let keys: Vec<String> = v[0].as_object().unwrap().keys().cloned().collect();
            let key = keys[case.field % keys.len()].clone();
            v[0].as_object_mut().unwrap().remove(&key);
            let src = serde_json::to_string(&v).unwrap();
            let parsed = parse(&src).map_err(|e| ("document-with-missing-field-refused".to_string(), format!("missing {}: {} for {}", key, e, src)))?;
            let pj = serde_json::to_value(&parsed.iter().map(|a| &**a).collect::<Vec<_>>()).unwrap();
            let mut expect = orig_json.clone();
            expect[0][&key] = default_json[&key].clone();
            if key == "id" {
                let id = pj[0]["id"].as_str().unwrap_or("");
                if id.is_empty() || Some(id) == orig_json[0]["id"].as_str() {
                    return Err(("missing-id-not-defaulted".into(), format!("id after parse: {:?}", id)));
                }
            } else if strip_id(&pj) != strip_id(&expect) || pj[0]["id"] != orig_json[0]["id"] {
                return Err(("missing-field-not-default".into(), format!("dropped {}: parsed {}\nexpected {}", key, pj, expect)));
            }
        }
        4 => {
            classes.push("wrong-type");
            let mut v = orig_json.clone();
            let keys: Vec<String> = v[0].as_object().unwrap().keys().cloned().collect();
            let key = keys[case.field % keys.len()].clone();
            let old = v[0][&key].clone();
            let bad = match &old {
                Value::String(_) => serde_json::json!(17),
                Value::Number(_) => serde_json::json!("17"),
                Value::Object(_) => serde_json::json!([1, 2]),
                Value::Null => serde_json::json!({"a": 1}),
                _ => serde_json::json!({"x": []}),
            };
            // enum-valued fields are strings: a number is a wrong type for them as well
            v[0][&key] = bad;
            let src = serde_json::to_string(&v).unwrap();
            if let Ok(p) = parse(&src) {
                return Err(("wrongly-typed-document-accepted".into(), format!("field {} given as {} parsed to {:?}", key, v[0][&key], p)));
            }
            // an unknown enum variant and a negative number for an unsigned field
            let mut v2 = orig_json.clone();
            let mut mutated = false;
            for k in &keys {
                if k.ends_with("strategy") || k == "metric_type" {
                    v2[0][k] = serde_json::json!("Custom");
                    mutated = true;
                    break;
                }
            }
            if mutated && parse(&serde_json::to_string(&v2).unwrap()).is_ok() {
                return Err(("unknown-variant-accepted".into(), format!("{}", v2)));
            }
        }
        5 => {
            classes.push("truncated");
            let bytes = compact.as_bytes();
            let k = (case.cut as usize) % bytes.len();
            // cut on a char boundary (the parser takes &str)
            let mut k = k;
            while !compact.is_char_boundary(k) {
                k -= 1;
            }
            let src = &compact[..k];
            if let Ok(p) = parse(src) {
                return Err(("truncated-document-accepted".into(), format!("prefix of {} bytes of {} parsed to {:?}", k, compact, p)));
            }
        }
        _ => {
            classes.push("not-an-array");
            let first = serde_json::to_string(&orig_json[0]).unwrap();
            for src in [first.as_str(), "null", "17", "\"abc\"", "", "{}", "[1]", "[null]"] {
                if let Ok(p) = parse(src) {
                    return Err(("non-array-document-accepted".into(), format!("{:?} parsed to {:?}", src, p)));
                }
            }
            if parse("[]").map(|v| v.len()).unwrap_or(1) != 0 {
                return Err(("empty-array-refused".into(), "[] must parse to no rules".into()));
            }
        }
    }
    let differing = orig_json[0]
        .as_object()
        .map(|m| m.iter().filter(|(k, v)| k.as_str() != "id" && k.as_str() != "resource" && default_json.get(k.as_str()) != Some(*v)).count())
        .unwrap_or(0);
    if differing >= 3 {
        classes.push("differs-from-default-in-3-fields");
    }
    Ok((true, classes))
}

fn decisions_flow(rule: &flow::Rule, script: &[(u64, u32)]) -> Vec<bool> {
    util::reset_all();
    // both runs must start at the same phase of every bucket length in the menu (lcm(700, 10000) = 70000)
    let t = (clock::new_case_epoch() / 70_000 + 1) * 70_000;
    clock::set_ms(t);
    flow::load_rules(vec![Arc::new(rule.clone())]);
    let mut out = Vec::new();
    for (dt, b) in script {
        clock::advance_ms(*dt);
        match build(Req::new(&rule.resource, *b)) {
            Ok(e) => {
                e.exit();
                out.push(true)
            }
            Err(_) => out.push(false),
        }
    }
    out
}

fn decisions_iso(rule: &isolation::Rule) -> Vec<bool> {
    util::reset_all();
    clock::new_case_epoch();
    isolation::load_rules(vec![Arc::new(rule.clone())]);
    let mut open = OpenEntries::new();
    let mut out = Vec::new();
    for _ in 0..4 {
        match build(Req::new(&rule.resource, 1)) {
            Ok(e) => {
                open.push(e);
                out.push(true)
            }
            Err(_) => out.push(false),
        }
    }
    out
}

fn decisions_hot(rule: &hotspot::Rule, script: &[(u64, u32)]) -> Vec<bool> {
    util::reset_all();
    clock::new_case_epoch();
    hotspot::load_rules(vec![Arc::new(rule.clone())]);
    let mut out = Vec::new();
    let mut open = OpenEntries::new();
    for (i, (dt, b)) in script.iter().enumerate() {
        clock::advance_ms(*dt);
        let mut req = Req::new(&rule.resource, *b);
        req.args = Some(vec![["a", "a|b", "z"][i % 3].to_string(), "a".to_string()]);
        req.attachments = Some([("k".to_string(), "a".to_string())].into_iter().collect());
        match build(req) {
            Ok(e) => {
                open.push(e);
                out.push(true)
            }
            Err(_) => out.push(false),
        }
    }
    out
}

impl Property for C18 {
    fn id(&self) -> &'static str {
        "C18"
    }
    fn budget(&self, tier: Tier) -> Budget {
        match tier {
            Tier::Quick => Budget { cases: 15_000, shards: 16, min_len: 24, max_len: 80 },
            Tier::Thorough => Budget { cases: 150_000, shards: 16, min_len: 24, max_len: 80 },
        }
    }
    fn fuzz_targets(&self) -> Vec<(&'static str, u64, usize)> {
        vec![("prop", 300_000, 80), ("parse_rules", 1_500_000, 600), ("parse_metric_line", 2_000_000, 200)]
    }
    fn rule(&self) -> String {
        "bytes -> family (five rule families or metric item), 1-3 rules built from the field menus of C12 (serialisable variants, finite floats incl. 0.1, 1/3, 0.30000000000000004, subnormal-boundary, and arbitrary 52-bit-mantissa values in [2^-70, 2^19], extreme and arbitrary 64-bit integers incl. values above 2^53), resource name from a pool with unicode, quotes, backslashes, control characters, the `|` separator and the empty string, override maps with such keys; document variant: compact / pretty / fields reordered / one field dropped / one field wrongly typed or unknown variant / truncated at a generated byte / not an array; oracle: parser(to_string(rules)) equals the rules (PartialEq and every field via the JSON value), a dropped field equals Default (id: fresh), malformed documents are Err and never panic, the parsed rule gives the same decisions as the original on a short entry script (flow, isolation, hotspot); metric items with arbitrary counters: from_string(to_string(item)) equals the item with `|` replaced by `_` in the name; non-trivial = rule differs from Default in >= 3 fields, or the name needs escaping, or a field was dropped; distinct = distinct decoded cases".into()
    }
    fn assumptions(&self) -> Vec<String> {
        vec![
            "hook: `datasource::rule_json_array_parser` compiled without a concrete datasource feature; `MetricItem::verif_new/verif_fields` for the crate-private fields".into(),
            "metric item timestamps are valid dates (0 .. year 9999), since a line embeds the formatted time".into(),
            "truncation is judged on the compact document (any strict prefix of it is malformed JSON)".into(),
        ]
    }
    fn run(&self, bytes: &[u8], cfg: &RunCfg) -> Verdict {
        let mut u = Bytes::new(bytes);
        let case = decode(&mut u);
        let res = NAMES[case.name];
        let f = &case.f;
        let n = case.nrules;
        let script: Vec<(u64, u32)> = (0..6).map(|i| ([0u64, 1, 500, 1000][(f[13] as usize + i) % 4], 1 + ((f[12] as usize + i) % 3) as u32)).collect();
        let r: R = match case.family {
            0 => {
                let rules: Vec<flow::Rule> = (0..n).map(|k| mk_flow(f, res, k, &case.counters)).collect();
                let r0 = rules[0].clone();
                judge_rules(&case, rules, serde_json::to_value(flow::Rule::default()).unwrap()).and_then(|ok| {
                    if r0.calculate_strategy == flow::CalculateStrategy::Direct && r0.relation_strategy == flow::RelationStrategy::Current && !r0.resource.is_empty() {
                        let parsed = rule_json_array_parser::<flow::Rule>(&serde_json::to_string(&vec![r0.clone()]).unwrap()).map_err(|e| ("valid-document-refused".to_string(), e.to_string()))?;
                        let a = decisions_flow(&r0, &script);
                        let b = decisions_flow(&parsed[0], &script);
                        if a != b {
                            return Err(("enforced-differently".into(), format!("original {:?} decides {:?}, parsed {:?} decides {:?}", r0, a, parsed[0], b)));
                        }
                    }
                    Ok(ok)
                })
            }
            1 => {
                let rules: Vec<hotspot::Rule> = (0..n).map(|k| mk_hot(f, res, k, &case.counters)).collect();
                let r0 = rules[0].clone();
                judge_rules(&case, rules, serde_json::to_value(hotspot::Rule::default()).unwrap()).and_then(|ok| {
                    use sentinel_core::base::SentinelRule;
                    if r0.is_valid().is_ok() && r0.duration_in_sec <= 3 && r0.threshold <= 1_000_000 && r0.burst_count <= 1_000_000 && r0.max_queueing_time_ms <= 600_000 && r0.specific_items.values().all(|v| *v <= 1_000_000) {
                        let parsed = rule_json_array_parser::<hotspot::Rule>(&serde_json::to_string(&vec![r0.clone()]).unwrap()).map_err(|e| ("valid-document-refused".to_string(), e.to_string()))?;
                        let a = decisions_hot(&r0, &script);
                        let b = decisions_hot(&parsed[0], &script);
                        if a != b {
                            return Err(("enforced-differently".into(), format!("original {:?} decides {:?}, parsed {:?} decides {:?}", r0, a, parsed[0], b)));
                        }
                    }
                    Ok(ok)
                })
            }
            2 => {
                let rules: Vec<cb::Rule> = (0..n).map(|k| mk_cb(f, res, k, &case.counters)).collect();
                judge_rules(&case, rules, serde_json::to_value(cb::Rule::default()).unwrap())
            }
            3 => {
                let rules: Vec<isolation::Rule> = (0..n).map(|k| mk_iso(f, res, k)).collect();
                let r0 = rules[0].clone();
                judge_rules(&case, rules, serde_json::to_value(isolation::Rule::default()).unwrap()).and_then(|ok| {
                    if !r0.resource.is_empty() && r0.threshold > 0 {
                        let parsed = rule_json_array_parser::<isolation::Rule>(&serde_json::to_string(&vec![r0.clone()]).unwrap()).map_err(|e| ("valid-document-refused".to_string(), e.to_string()))?;
                        let a = decisions_iso(&r0);
                        let b = decisions_iso(&parsed[0]);
                        if a != b {
                            return Err(("enforced-differently".into(), format!("original {:?} decides {:?}, parsed decides {:?}", r0, a, b)));
                        }
                    }
                    Ok(ok)
                })
            }
            4 => {
                let rules: Vec<system::Rule> = (0..n).map(|k| mk_sys(f, k, &case.counters)).collect();
                judge_rules(&case, rules, serde_json::to_value(system::Rule::default()).unwrap())
            }
            _ => {
                // metric item
                let c = &case.counters;
                let fields = VerifMetricFields {
                    resource: res.to_string(),
                    resource_type: (c[7] % 7) as u8,
                    timestamp: c[0] % 253_402_300_799_000,
                    pass_qps: c[1],
                    block_qps: c[2],
                    complete_qps: c[3],
                    error_qps: c[4],
                    avg_rt: c[5],
                    occupied_pass_qps: c[6],
                    concurrency: (c[7] >> 3) as u32,
                };
                let item = MetricItem::verif_new(&fields);
                let line = item.to_string();
                match MetricItem::from_string(&line) {
                    Err(e) => Err(("metric-line-refused".into(), format!("{:?}: {}", line, e))),
                    Ok(back) => {
                        let mut want = fields.clone();
                        want.resource = want.resource.replace('|', "_");
                        if back.verif_fields() != want {
                            Err(("metric-line-mismatch".into(), format!("line {:?}\nparsed {:?}\nexpected {:?}", line, back.verif_fields(), want)))
                        } else {
                            // malformed lines are errors, not panics
                            for bad in ["", "|", "1|2|3", "x|t|r|1|2|3|4|5", "1|t|r|1|2|3|4|-5", "1|t|r|1|2|3|4|5|6|7|300"] {
                                let _ = MetricItem::from_string(bad);
                            }
                            let k = (case.cut as usize) % line.len().max(1);
                            if line.is_char_boundary(k) {
                                let _ = MetricItem::from_string(&line[..k]);
                            }
                            Ok((true, vec!["metric-item"]))
                        }
                    }
                }
            }
        };
        match r {
            Err((clause, detail)) => Verdict::Fail(Failure {
                clause: clause.clone(),
                key: format!("C18|{}|{}", ["flow", "hotspot", "breaker", "isolation", "system", "metric-item"][case.family as usize], clause),
                detail,
                decoded: serde_json::to_value(&case).unwrap(),
            }),
            Ok((_, mut classes)) => {
                classes.push(["flow", "hotspot", "breaker", "isolation", "system", "metric-item"][case.family as usize]);
                let needs_escape = res.chars().any(|c| c == '"' || c == '\\' || c == '|' || (c as u32) < 0x20 || (c as u32) > 0x7f);
                if needs_escape {
                    classes.push("name-needs-escaping");
                }
                Verdict::Pass(CaseReport {
                    nontrivial: needs_escape
                        || (case.family != 5 && case.doc == 3)
                        || classes.contains(&"differs-from-default-in-3-fields")
                        || (case.family == 5 && case.counters.iter().any(|c| *c > u32::MAX as u64)),
                    classes,
                    digest: digest_of(&case),
                    decoded: if cfg.want_decoded { serde_json::to_value(&case).ok() } else { None },
                    known_hits: vec![],
                    counters: vec![],
                })
            }
        }
    }
}
